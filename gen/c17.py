"""C17 — every legal API history on driver, sockets and ToDos is memory-safe."""
from common import *
from engine import run_sim_check
import drivercases as dc
from asyncchecks import *

THEOREMS = ["want_send_on_unlisted_is_noop", "unregister_tolerates_absent", "remove_tolerates_absent", "pfds_aligned_invariant", "promises_resolved_at_most_once_guard", "destroy_breaks_every_pending_send"]


# bounded-exhaustive part: EVERY sequence of up to L operations over this alphabet, on one driver with one asynchronous TCP socket
# (whose disconnect handler destroys it, or not) and one ToDo, under three kernels (benign / peer goes away / sends fail).
ALPHABET = [
    [(1061, [1, 9, 5])],                # Send
    [(1041, [0])],                      # Step
    [(14, []), (1028, [1])],            # destroy the socket (buffers given back first)
    [(1044, [])],                       # destroy the driver
    [(1052, [1])],                      # Cancel the ToDo
    [(1051, [1, 2, 0])],                # Shift the ToDo to "now"
    [(1043, []), (1042, [])],           # Stop + Run
]
KERNELS = [
    {"timeout": 0.0, "pipe": 0.0, "eintr": 0.0, "pollerr": 0.0, "senderr": 0.0, "recverr": 0.0, "hup": 0.0, "close": 0.0, "fail_after_partial": 0.0, "short": 0.3},
    {"timeout": 0.0, "pipe": 0.0, "eintr": 0.0, "pollerr": 0.0, "senderr": 0.0, "recverr": 0.3, "hup": 0.5, "close": 0.6, "fail_after_partial": 0.0},
    {"timeout": 0.0, "pipe": 0.0, "eintr": 0.0, "pollerr": 0.0, "senderr": 0.7, "recverr": 0.0, "hup": 0.0, "close": 0.0, "fail_after_partial": 0.9},
]


def enumerate_short(rnd, tier):
    import itertools
    L = {"quick": 3, "thorough": 4, "search": 3}[tier]
    cases = []
    n = 0
    for self_destroy in (0, 1):
        prefix = [(1, [1]), (2, []), (1, [2])] + ([(28, [1])] if self_destroy else []) + [(2, []), (1, [3]), (2, []),
                  (40, []), (10, [9, 0, 0]), (20, [1]), (30, [1, 2, 16]), (60, [1, 1, 2]), (50, [1, 2, 0, 3])]
        for ln in range(1, L + 1):
            for seq in itertools.product(range(len(ALPHABET)), repeat=ln):
                ops = list(prefix)
                for a in seq:
                    ops += ALPHABET[a]
                for kn, prof in enumerate(KERNELS):
                    if tier != "thorough" and (n + kn) % 2:      # quick tier: every other (sequence, kernel) pair
                        continue
                    c = Case("enum%d.%s.k%d-%d" % (self_destroy, "".join(str(a) for a in seq), kn, n), ops, [], [],
                             {"kind": "enum", "flavour": "enum", "instant": True, "profile": prof, "pipe_fd": 1001})
                    cases.append(c)
                n += 1
    return dc.grow(cases, dc.chooser, rnd)


def generate(rnd, tier):
    return dc.generate_driver(rnd, tier, 500) + enumerate_short(rnd, tier)


def nontrivial_key(c, tr):
    n = sum(1 for k, a in tr if k == 20)
    return c.key() if n >= 4 else None


def monitor(c, tr):
    w = dc.monitor_async(c, tr)
    if w:
        return w
    for k, a in tr:
        if k == 99 and a[0] == 2:
            return "undefined behaviour reached (model code %d)" % a[1]
    return None


SPEC = {
    "id": "C17", "module": "Properties_C17", "theorems": THEOREMS, "harness": "sim", "flavour": "san",
    "generate": generate, "project": project_async, "nontrivial_key": nontrivial_key, "monitor": monitor,
    "distribution": distribution,
    "rule": "bounded-exhaustive: every sequence of <= 3 (quick: every other one; thorough: <= 4, all) operations over {Send, Step, destroy socket, destroy driver, Cancel, Shift, Stop+Run} on one "
            "driver with one asynchronous TCP socket (disconnect handler destroying the socket or not) and one ToDo, under three kernels (benign, peer goes away, sends fail); plus a "
            "state-aware random walk over create / send / step / peer-action / destroy / cancel / shift on one driver, 1-3 async sockets of every class, "
            "pools and ToDos: sending on a socket whose peer already disconnected, destroying a socket inside its disconnect handler or with sends pending, "
            "destroying the driver before or after its sockets and ToDos, cancelling/shifting finished ToDos, stepping an empty driver; run in an isolated "
            "process under AddressSanitizer+UBSan with _GLIBCXX_SANITIZE_VECTOR and the library's asserts enabled. non-trivial: >= 4 operations.",
    "assumptions": ["logic-level validity of lookups/indices/lifetimes is what the model tracks; memory safety of the compiled code is evidenced by the sanitizer runs, not proved",
                    "usage rules respected by the generator: pools outlive buffers, at most N receive buffers held, no self-destruction in the receive handler"],
}


def main(tier, seed, replay=None):
    return run_sim_check(SPEC, tier, seed, replay)
