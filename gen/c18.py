"""C18 — TLS sockets encrypt, need a TLS peer, and always complete the handshake.

What is checked here is the TLS GLUE of src/socket_tls_impl.cpp (+ the driver's TLS hooks), against a scripted TLS engine
that stands in for OpenSSL on both sides of the correspondence (TlsModel.engine / harness/fakessl.cpp): the engine
script of a case is produced by a small virtual TLS-1.3 endpoint (client or server role, flights ClientHello /
ServerHello..Finished / Finished / session tickets, application records with 22 bytes of overhead, close_notify) whose
remote peer is virtual too (its flights become readable once ours are on the wire; it may be a non-TLS peer, may close,
may be slow). The kernel chooser segments records, reports 'not writable' at zero-time-out polls and writes short.
Plan in the case id:  <role>.<level>.<peer>.p<app bytes>.r<record>.g<segment>.w<not-writable %>.s<short-write %>.c<close>.x<fatal call>.e<err>.n<serial>"""
from common import *
import random, zlib
from engine import run_sim_check
import adaptive
from asyncchecks import project_async
from simgen import EINTR, EAGAIN, EPIPE, ECONNRESET, POLLIN, POLLOUT, POLLERR, POLLHUP
from c14 import pipe_of, top_ops, segments

THEOREMS = ["outside_the_engine_the_glue_only_waits", "delivery_needs_engine_data", "fatal_engine_errors_throw", "write_accounting",
            "query_requests_write_only_for_handshake", "suppressed_write_poll_is_restored", "idle_client_requests_write",
            "pending_only_advances_the_handshake", "send_only_writes", "receive_only_reads", "unlimited_receive_never_nothing",
            "send_io_inside_engine", "receive_io_inside_engine", "driver_paths_io_inside_engine",
            "receive_now_keeps_the_interest", "send_some_keeps_the_interest", "pending_keeps_the_interest", "known_interest_is_polled", "tls_send_complete", "read_steps_suffice_refuted", "driver_receive_drains_the_engine",
            "step_budget_is_measured_against_the_operation_deadline", "set_timeout_fixes_the_deadline", "budgeted_step_keeps_the_invariant",
            "budgeted_wait_gives_up_near_the_deadline"]

CH, SF, CF, ST, OVH, CLOSE_NOTIFY = 120, 900, 60, 260, 22, 24
E_SSL, E_WANT_READ, E_WANT_WRITE, E_SYSCALL, E_ZERO = 1, 2, 3, 5, 6


def plan_of(c):
    if "plan" in c.meta:
        return c.meta["plan"]
    t = c.id.split("-")[0].split(".")
    try:
        p = {"role": t[0], "level": t[1], "peer": t[2], "app": int(t[3][1:]), "rec": int(t[4][1:]), "seg": int(t[5][1:]), "nw": int(t[6][1:]),
             "short": int(t[7][1:]), "close": int(t[8][1:]), "fatal": int(t[9][1:]), "ferr": int(t[10][1:])}
    except (IndexError, ValueError):
        p = None
    c.meta["plan"] = p
    return p


def make_id(p, n):
    return "%s.%s.%s.p%d.r%d.g%d.w%d.s%d.c%d.x%d.e%d.n%d" % (p["role"], p["level"], p["peer"], p["app"], p["rec"], p["seg"], p["nw"], p["short"],
                                                       p["close"], p["fatal"], p["ferr"], n)


def tls_socks(tr):
    """TLS sockets of the case in order of creation: list of (key, fd, role)"""
    out = []
    for k, a in tr:
        if k == 20 and a[1] == 1:
            if a[0] == 80:
                out.append((a[3], a[2], "cli"))
            elif a[0] == 27 and a[2] == 1:
                out.append((a[5], a[4], "srv"))
    return out


def tls_fd(tr):
    s = tls_socks(tr)
    return s[0][1] if s else None


class World:
    """everything derived from the trace so far, for ONE TLS socket of the case (index: 0 = the first one created).
    A second TLS socket (level 'dual') always has the other kind of peer: a non-TLS peer next to a TLS peer and vice versa."""
    def __init__(self, c, tr, index=0, sock=None):
        p = dict(plan_of(c))
        socks = tls_socks(tr)
        if sock is not None:       # a socket named by key (model traces) or descriptor (implementation traces)
            index = next((i for i, (key, fd, role) in enumerate(socks) if sock in (key, fd)), 0)
        self.index = index
        self.nsocks = len(socks)
        self.fd = socks[index][1] if index < len(socks) else None
        self.key = socks[index][0] if index < len(socks) else None
        if index < len(socks):
            p["role"] = socks[index][2]
        if index >= 1:
            p["peer"] = "plain" if p["peer"] == "tls" else "tls"
            p["fatal"] = 0
        self.p = p
        self.wire_out = sum(a[3] for k, a in tr if k == 3 and a[0] == self.fd and a[3] > 0)
        self.wire_in = sum(a[2] for k, a in tr if k == 4 and a[0] == self.fd and a[2] > 0)
        # engine and BIO entries belong to the socket named by the K_ENGCALL entry before them
        mine = []
        cur = None
        self.calls = 0
        for k, a in tr:
            if k == 42:
                self.calls += 1
                cur = a[2] if len(a) > 2 else None
            elif k in (40, 41) and (cur is None or cur in (self.key, self.fd)):
                mine.append((k, a))
        self.bio_r = sum(a[2] for k, a in mine if k == 41 and a[0] == 1 and a[2] > 0)
        self.bio_w = sum(a[2] for k, a in mine if k == 41 and a[0] == 2 and a[2] > 0)
        self.eng = [a for k, a in mine if k == 40]
        self.init = any(a[4] == 1 for a in self.eng)
        self.delivered = sum(a[2] for a in self.eng if a[0] == 1 and a[2] > 0)
        self.written_recs = [a[2] for a in self.eng if a[0] == 2 and a[2] > 0]
        self.shutdowns = [a for a in self.eng if a[0] == 3]
        p = self.p
        # the peer's byte stream: (what, wire bytes, payload, our output needed before it is sent)
        recs = []
        app = p["app"]
        while app > 0:
            n = min(app, p["rec"])
            recs.append(n)
            app -= n
        self.app_recs = recs
        if p["peer"] == "plain":
            self.stream = [("garbage", 50, 0, 0)]
            self.hs_steps = [("W", CH), ("R", 5)] if p["role"] == "cli" else [("R", 5)]
        elif p["role"] == "cli":
            self.stream = [("hs", SF, 0, CH), ("ticket", ST, 0, CH + CF)] + [("app", n + OVH, n, CH + CF) for n in recs]
            self.hs_steps = [("W", CH), ("R", SF), ("W", CF)]
        else:
            self.stream = [("hs", CH, 0, 0), ("hs", CF, 0, SF)] + [("app", n + OVH, n, SF) for n in recs]
            self.hs_steps = [("R", CH), ("W", SF), ("R", CF), ("W", ST)]
        if p["close"] and p["peer"] == "tls":
            self.stream.append(("close", CLOSE_NOTIFY, 0, self.stream[-1][3]))

    def undelivered_plain(self):
        """application bytes of records the engine has read completely from the wire but not handed out yet (SSL_pending)"""
        steps, post_r, post_w = self.hs_remaining()
        if steps or self.p["peer"] != "tls":
            return 0
        r, total = post_r, 0
        for what, n, pay, need in [x for x in self.stream if x[0] in ("ticket", "app", "close")]:
            if r >= n:
                r -= n
                total += pay
            else:
                break
        return total - self.delivered

    def available(self):
        tot = 0
        for what, n, pay, need in self.stream:
            if self.wire_out < need:
                break
            tot += n
        return tot - self.wire_in

    def all_sent(self):
        return all(self.wire_out >= need for _, _, _, need in self.stream)

    def eof(self):
        return (self.p["close"] or self.p["peer"] == "plain") and self.all_sent() and self.available() == 0

    def hs_remaining(self):
        """remaining handshake steps given the BIO totals; also the BIO bytes beyond the handshake"""
        r, w = self.bio_r, self.bio_w
        out = []
        done = True
        for kind, n in self.hs_steps:
            if not done:
                out.append((kind, n))
                continue
            if kind == "R":
                if r >= n:
                    r -= n
                else:
                    out.append((kind, n - r)); r = 0; done = False
            else:
                if w >= n:
                    w -= n
                else:
                    out.append((kind, n - w)); w = 0; done = False
        return out, r, w


def engine_chooser(c, a, tr, rnd):
    call, size = a[0], a[1]
    W = World(c, tr, sock=a[2] if len(a) > 2 else None)
    p = W.p
    if W.fd is None:
        return None
    if p["fatal"] and W.calls == p["fatal"]:
        return [call, 0, -1, p["ferr"], 1 if W.init else 0]
    steps, post_r, post_w = W.hs_remaining()
    bios = []
    for kind, n in steps:
        bios += [1 if kind == "R" else 2, n]
    nb = len(steps)
    if p["peer"] == "plain":
        if steps:
            return [call, nb] + bios + [-1, E_SSL, 0]         # whatever arrives is not a TLS record
        return [call, 0, -1, E_SSL, 0]
    init_after = 1
    if call == 4:
        return [call, nb] + bios + [1, 0, 1]                  # SSL_do_handshake: the remaining flights, nothing else
    if call == 3:
        if not W.init and steps:
            return [call, 0, -1, E_SSL, 0]                    # SSL_shutdown during the handshake fails
        got_close = any(x[0] == 1 and x[3] == E_ZERO for x in W.eng)
        if not W.shutdowns:
            return [call, 1, 2, CLOSE_NOTIFY, 1 if got_close else 0, 0, 1]
        return [call, 0, 1 if got_close else 0, 0, 1]
    if call == 2:
        if size <= 0:
            return [call, nb] + bios + [0, 0, init_after]
        pay = min(size, 16384)
        rec = pay + OVH
        pending = post_w - sum(n + OVH for n in W.written_recs) - (CLOSE_NOTIFY if W.shutdowns else 0)
        if pending < 0 or pending >= rec:
            pending = 0
        return [call, nb + 1] + bios + [2, rec - pending, pay, 0, init_after]
    # call == 1: SSL_read
    inbound = [x for x in W.stream if x[0] in ("ticket", "app", "close")]
    buffered_total = 0
    r = post_r
    idx, cur_rem = len(inbound), None
    for i, (what, n, pay, need) in enumerate(inbound):
        if r >= n:
            r -= n
            buffered_total += pay
        else:
            idx, cur_rem = i, n - r
            break
    buffered = buffered_total - W.delivered
    if not steps and buffered > 0:
        return [call, 0, min(size, buffered), 0, 1, 1 if buffered > size else 0]       # last field: SSL_pending() > 0 afterwards
    # read records until an application record (or close_notify) is complete
    more = []
    res = None
    first = True
    for what, n, pay, need in inbound[idx:]:
        more += [1, cur_rem if first else n]
        first = False
        if what == "app":
            res = [min(size, pay), 0, 1, 1 if pay > size else 0]
            break
        if what == "close":
            res = [0, E_ZERO, 1]
            break
    if res is None:
        more += [1, 5]                  # nothing more will come: the engine waits for the next record header
        res = [-1, E_WANT_READ, 1]
    return [call, nb + len(more) // 2] + bios + more + res


def kernel(c, kind, a, tr, rnd):
    rnd = random.Random(zlib.crc32(c.id.split("-")[0].encode()) * 1000 + len(c.evs))
    if kind == 8:
        return engine_chooser(c, a, tr, rnd)
    W = World(c, tr)
    p = W.p
    worlds = {W.fd: W}
    for i in range(1, W.nsocks):
        w2 = World(c, tr, index=i)
        worlds[w2.fd] = w2
    if kind in (3, 4) and a[0] in worlds:
        W = worlds[a[0]]
    if kind == 1:
        # the clock moves: time budgets of limited operations are consumed — also by fractions of a millisecond (F15)
        return [rnd.choice([0, 0, 20000, 400000, 1000000, 3000000])]
    if kind == 2:
        timeout = a[0]
        fds = [(a[i], a[i + 1]) for i in range(3, len(a) - 1, 2)]
        pf, pt = pipe_of(tr)
        rev = []
        for f, ev in fds:
            if f in worlds:
                Wf = worlds[f]
                b = 0
                if ev & POLLIN and (Wf.available() > 0 or Wf.eof()):
                    # segmentation in TIME as well: the FIRST zero-time-out look at a stream position may come before the next
                    # segment has arrived (decided per position; every later look finds it: arrival is monotone)
                    looked = 0
                    pending_seen = False
                    for k2, a2 in reversed(tr):
                        if 1 <= k2 <= 7 and not pending_seen:
                            pending_seen = True          # the call that is being answered (filled in by the probe)
                            continue
                        if k2 == 4 and a2[0] == f:
                            break
                        if k2 == 2 and f in a2[3::2]:
                            looked += 1
                    gap = zlib.crc32(("%s/%d/%d" % (c.id.split("-")[0], f, Wf.available())).encode()) % 100 < p["nw"]
                    if not (timeout == 0 and Wf.available() > 0 and looked == 0 and gap):
                        b |= POLLIN
                if ev & POLLOUT and (timeout < 0 or rnd.randrange(100) >= p["nw"]):
                    b |= POLLOUT
                rev.append(b)
            elif pt is not None and f == pt:
                pending = sum(1 for k, x in tr if k == 5 and x[0] == pf and x[3] > 0) - sum(1 for k, x in tr if k == 6 and x[0] == pt and x[2] >= 0)
                rev.append(POLLIN if pending > 0 else 0)
            elif ev & POLLIN and f not in worlds and f != pt and f != pf:
                rev.append(POLLIN)         # the acceptor: the next peer is waiting
            else:
                rev.append(0)
        n = sum(1 for x in rev if x)
        if n == 0:
            if timeout >= 0:
                return [0, 0, timeout * 1000000] + rev
            return None
        dt = 0 if timeout == 0 else rnd.choice([0, 0, 300000, 2000000])
        if timeout > 0:
            dt = min(dt, timeout * 1000000)
        return [n, 0, dt] + rev
    if kind == 3:
        ln = a[1]
        if ln > 1 and rnd.randrange(100) < p["short"]:
            return [rnd.choice([1, ln - 1, max(1, ln // 2)]), 0]
        return [ln, 0]
    if kind == 4:
        av = W.available()
        if av > 0:
            return [max(1, min(a[1], av, p["seg"])), 0]
        if W.eof():
            return [0, 0]
        return [-1, EAGAIN]
    if kind == 5:
        return [a[1], 0]
    if kind == 6:
        return [1, 0, 2]
    if kind == 7:
        return [0, 5]
    return None


# ---------------------------------------------------------------------------------------------------------------
TS = [-1, -1, 0, 7, 50]


def gen_ops(rnd, role, level):
    ops = []
    if role == "cli":
        ops += [(80, [1])]
    else:
        ops += [(81, [9]), (27, [9, -1, 1])]
    if level == "dual":
        # two accepted TLS connections served by one thread: one peer speaks TLS, the other does not
        ops += [(27, [9, -1, 2])]
        for _ in range(rnd.choice([3, 5, 8])):
            key = rnd.choice([1, 2])
            if rnd.random() < 0.4:
                ops.append((1023, [key, rnd.choice([1, 5, 40]), rnd.choice([0, 7, 50])]))
            else:
                ops.append((1024, [key, rnd.choice([8, 64, 1000]), rnd.choice([0, 7, 50])]))
        ops += [(1028, [1]), (1028, [2])]
    elif level in ("basic", "buffered"):
        if level == "buffered":
            ops += [(30, [1, rnd.choice([1, 2, 3]), rnd.choice([8, 64, 1000])])]
        pending = None
        for _ in range(rnd.choice([1, 2, 3, 5, 8])):
            if pending is not None or rnd.random() < 0.5:
                # usage rule: a Send that did not take everything is retried with the same (remaining) data: sizes that differ
                # are generated too, the model marks them Stuck and the case is dropped from the non-trivial count
                size = rnd.choice([1, 5, 40, 1000, 20000, 20000, 150000, 400000])     # up to 25 TLS records in one Send
                ops.append((23, [1, size, rnd.choice(TS)]))
            elif level == "buffered":
                ops.append((32, [1, rnd.choice(TS)]))
                if rnd.random() < 0.6:
                    ops.append((14, []))
            else:
                ops.append((24, [1, rnd.choice([1, 8, 64, 1000]), rnd.choice(TS)]))
        ops += [(14, []), (28, [1])]
    else:
        ops += [(1, [1]), (2, []), (1, [2]), (2, []), (40, []), (10, [8, 0, 0]), (30, [1, rnd.choice([1, 2]), rnd.choice([8, 64, 1000])]), (60, [1, 1, 2])]
        p_send = rnd.choice([0.0, 0.25, 0.25])
        for _ in range(rnd.choice([4, 8, 12, 20])):
            if rnd.random() < p_send:
                ops.append((1061, [1, 8, rnd.choice([1, 5, 40, 1000, 1000, 170000])]))
            else:
                ops.append((1041, [rnd.choice([0, 0, 3, 3, -1])]))
        ops += [(1041, [0])] * 14
        ops += [(14, []), (1028, [1]), (1044, [])]
    if role == "srv":
        ops += [(1028, [9])]
    return ops


def fix_retries(c, tr):
    """usage rule of TLS sockets: a Send that took only part of the data is retried with the remaining data (same bytes)"""
    return c


def generate(rnd, tier):
    n = {"quick": 320, "thorough": 2500, "search": 150}[tier]
    cases = []
    for i in range(n):
        role = rnd.choice(["cli", "srv"])
        level = rnd.choice(["basic", "basic", "buffered", "async", "async", "async", "dual"])
        if level == "dual":
            role = "srv"
        p = {"role": role, "level": level, "peer": "tls" if rnd.random() < 0.85 else "plain", "app": rnd.choice([0, 5, 30, 200, 3000]),
             "rec": rnd.choice([7, 100, 16384]), "seg": rnd.choice([1, 7, 64, 5000]), "nw": rnd.choice([0, 0, 30, 60]), "short": rnd.choice([0, 0, 30]),
             "close": rnd.choice([0, 0, 1]), "fatal": rnd.choice([0, 0, 0, 0, 1, 2, 3, 5]), "ferr": rnd.choice([E_SSL, E_SYSCALL, E_ZERO])}
        if tier == "search" and i % 2 == 0:
            # aimed at the driver-mode handshake: a listening-only endpoint under back pressure
            p.update({"level": "async", "peer": "tls", "fatal": 0, "nw": rnd.choice([30, 60, 60]), "app": rnd.choice([0, 5])})
            level = "async"
        c = Case(make_id(p, i), gen_ops(rnd, role, level), [], [], {"kind": "tls", "flavour": level})
        c.meta["pipe_fd"] = 1001
        cases.append(c)
    adaptive.grow(cases, kernel, rnd, max_events=600, max_rounds=700)
    return cases


# ---------------------------------------------------------------------------------------------------------------
PENDING_KEY = "pending-data:SocketTlsImpl.DriverPending"
IDLE_KEY = "idle-client:SocketTlsImpl.DriverQuery"


def hs_next(p, bio_r, bio_w):
    """kind of the handshake step that is due ('R' / 'W'), None when the handshake is complete"""
    if p["peer"] != "tls":
        return None
    steps = [("W", CH), ("R", SF), ("W", CF)] if p["role"] == "cli" else [("R", CH), ("W", SF), ("R", CF), ("W", ST)]
    r, w = bio_r, bio_w
    for kind, n in steps:
        if kind == "R":
            if r >= n:
                r -= n
            else:
                return "R"
        else:
            if w >= n:
                w -= n
            else:
                return "W"
    return None


def stalled(c, tr):
    """the driver keeps polling WITHOUT asking for writability although the handshake owes the peer a flight: returns
    (number of such idle polls, engine calls so far) at the first time there are three in a row, else None"""
    p = plan_of(c)
    fd = tls_fd(tr)
    if fd is None or p["level"] != "async":
        return None
    bio_r = bio_w = calls = 0
    idle = 0
    init = False
    for k, a in tr:
        if k == 41 and a[2] > 0:
            if a[0] == 1:
                bio_r += a[2]
            else:
                bio_w += a[2]
            idle = 0
        elif k == 42:
            calls += 1
            if a[0] == 3:
                return None                      # the socket is being destroyed
        elif k == 40 and a[3] in (E_SSL, E_SYSCALL, E_ZERO):
            return None                          # the engine gave up on this connection
        elif k == 40 and a[4] == 1:
            init = True
        elif k == 2 and len(a) > 5:
            fds = [(a[i], a[i + 1]) for i in range(3, len(a) - 1, 2)]
            ev = next((e for f, e in fds if f == fd), None)
            if ev is not None and a[1] == 0 and not (ev & POLLOUT) and not init and hs_next(p, bio_r, bio_w) == "W":
                idle += 1
                if idle >= 3:
                    return idle, calls
    return None


STEPS_KEY = "steps-exhausted:zero-timeout:SocketTlsImpl.Read/Write/DriverPending"
BUDGET_KEY = "budget-truncated-per-step:SocketTlsImpl.UnderDeadline/BioWrite"


def budget_early(c, tr):
    """C07's lower bound for TLS operations: a Send/Receive with T > 0 that returns 'nothing' (Receive: no data, Send: fewer bytes
    than asked) must have let T pass, to the millisecond. Returns (kind, text): kind 'f15' when the shortfall is at most one
    millisecond per internal step (the budget is stored back truncated to milliseconds after every step), 'viol' when it is more."""
    p = plan_of(c)
    if not tr or p is None or p["level"] not in ("basic", "buffered", "dual") or p["fatal"]:
        return None
    from c14 import top_ops, segments
    rets = segments(c, tr)
    tops = top_ops(c)
    now, start, reads, seg_i, asked = 0, 0, 0, 0, None
    for i, (k, a) in enumerate(tr):
        if k == 1:
            now = max(now, a[0]); reads += 1
        elif k == 2:
            now += a[2]
        elif k == 42 and a[0] == 2 and asked is None:
            asked = a[1]                  # what this Send really offers (a pending TLS write is retried with ITS size, see sim.cpp)
        elif k == 40 and a[3] in (E_SSL, E_SYSCALL, E_ZERO):
            return None
        elif k == 20 and seg_i < len(rets) and i == rets[seg_i]:
            opc = a[0] % 1000
            top = tops[seg_i][1] if seg_i < len(tops) else []
            T = top[2] if opc in (23, 24) and len(top) > 2 else 0
            nothing = (opc == 24 and a[1] == 1 and a[2] < 0) or (opc == 23 and a[1] == 1 and a[2] < (asked if asked is not None else top[1]))
            if T > 0 and nothing:
                elapsed = now - start
                short = T * 1000000 - 1000000 - elapsed
                if short >= 0 and elapsed < T * 1000000 - 1000000:
                    steps = reads // 2 + 1
                    text = ("operation %d with time-out %d ms returned 'nothing' after %.3f ms (%d internal steps that each store the remaining budget back "
                            "truncated to whole milliseconds)" % (opc, T, elapsed / 1e6, steps))
                    return ("f15" if short <= steps * 1000000 else "viol", text)
            seg_i += 1
            start, reads, asked = now, 0, None
    return None



def steps_exhausted_zero_timeout(tr):
    """the operation in progress at the end of the trace made ten engine calls in a row that all ended in WANT_READ / WANT_WRITE,
    and every wait on the socket during those ten rounds had time-out 0 (driver mode, a zero-time-out call, or a limited call whose
    budget is used up): input that trickles in"""
    if not tr:
        return False
    died = any((k == 98 and a and a[0] == 6) or (k == 99 and a[0] == 2 and a[1] in (41, 42, 46)) for k, a in tr[-3:])
    if not died:
        return False
    eng = 0
    for k, a in reversed(tr):
        if k == 20:
            break
        if k == 2 and len(a) == 5 and a[0] != 0:      # a wait on the socket itself (the driver's own poll lists the pipe as well)
            break
        if k == 40:
            if a[2] <= 0 and a[3] in (E_WANT_READ, E_WANT_WRITE):
                eng += 1
            else:
                break
    return eng >= 10


def finding_key(c, ti, why):
    if ti and any(k == 20 and a[0] in (41, 42) and a[1] == 0 and a[2:4] == [4, 8] for k, a in ti):
        return PENDING_KEY
    if steps_exhausted_zero_timeout(ti):
        return STEPS_KEY
    be = budget_early(c, ti)
    if be and be[0] == "f15":
        return BUDGET_KEY
    return None


def monitor(c, tr):
    if not tr:
        return "no trace"
    p = plan_of(c)
    if p is None:
        return None
    if steps_exhausted_zero_timeout(tr):
        return ("(F13) ten engine calls in a row ended in WANT_READ/WANT_WRITE although each zero-time-out wait in between succeeded (input trickling in between two "
                "zero-time-out looks): handshakeStepsMax exhausted, assert(i < handshakeStepsMax) aborts")
    be = budget_early(c, tr)
    if be:
        return ("(F15) " if be[0] == "f15" else "") + be[1] + ": earlier than C07 allows (T to the millisecond)"
    if finding_key(c, tr, "") == PENDING_KEY:
        return "(F8) application data that arrives together with the end of the handshake is read and dropped by DriverPending(), std::logic_error escapes from Step/Run"
    for k, a in tr:
        if k == 98:
            n = a[0] if a else -1
            if n == 14:
                return "the call never returned (watchdog)"
            if n >= 1000:
                return "the process died with exit status %d (sanitizer report)" % (n - 1000)
            return "crashed / aborted (signal %d)" % n
        if k == 97:
            return "trace garbled (process died)"
        if k == 90:
            if a and a[0] == 31:
                return ("the engine rejected a repeated SSL_write_ex: 'bad write retry' — the library retried a pending TLS write with a moved buffer (or fewer bytes) "
                        "without SSL_MODE_ACCEPT_MOVING_WRITE_BUFFER; the send fails although nothing is wrong with the connection (fd %d)" % a[1])
            if a and a[0] == 30:
                return "bytes that did not come from the TLS engine were written to the TLS connection (cleartext on the wire), fd %d" % a[1]
            return "anomaly %s" % a
        if k == 99 and a[0] == 2 and a[1] not in (40,):
            return "undefined behaviour reached (model code %d)" % a[1]
    fd = tls_fd(tr)
    if fd is None:
        return None
    if p["level"] == "async" and p["peer"] == "tls" and not p["fatal"]:
        # F14: when a driver step returns, nothing that the engine has already decrypted may be left inside it — no poll event
        # will ever announce it (it has left the kernel)
        gone = False
        for i, (k, a) in enumerate(tr):
            if (k == 21 and a[0] == 2) or (k == 20 and a[0] in (28, 1028) and a[2:3] == [1]) or (k == 40 and a[3] in (E_SSL, E_SYSCALL, E_ZERO)):
                gone = True
            if k == 20 and a[0] in (41, 1041) and a[1] == 1 and not gone:
                left = World(c, tr[:i + 1]).undelivered_plain()
                if left > 0:
                    return ("the driver step returned while %d byte(s) of an already decrypted record were still inside the TLS engine: no poll event will "
                            "announce them, the receive handler gets them only when (if) the peer sends something else" % left)
    st = stalled(c, tr)
    if st:
        if st[1] == 0 and p["role"] == "cli":
            return "an asynchronous TLS client that has nothing queued for sending never starts the handshake: the driver polls for POLLIN only, the ClientHello is never written (F9)"
        return ("the handshake can never complete: it owes the peer a flight, but the driver polled %d times without asking for writability "
                "(the socket's write interest was lost)" % st[0])
    # C07 on TLS sockets: the time spent waiting inside one limited Send/Receive never exceeds its time-out
    waited = 0
    socks = tls_socks(tr)
    key_of = {}
    for key, sfd, role in socks:
        key_of[key] = key
        key_of[sfd] = key
    peer_of = {}
    for idx, (key, sfd, role) in enumerate(socks):
        peer_of[key] = p["peer"] if idx == 0 else ("plain" if p["peer"] == "tls" else "tls")
    init_k, fatal_k, delivered_k = {}, {}, {}
    cur = socks[0][0] if socks else None
    fatal_seen = False
    rets = segments(c, tr)
    tops = top_ops(c)
    seg_i = 0
    for i, (k, a) in enumerate(tr):
        if k == 42:
            cur = key_of.get(a[2], cur) if len(a) > 2 else cur
        elif k == 40:
            if a[4] == 1:
                init_k[cur] = True
            if a[3] in (E_SSL, E_SYSCALL, E_ZERO):
                fatal_k[cur] = True
                fatal_seen = True
        elif k == 21 and a[0] == 1:
            key = a[1]
            if not init_k.get(key):
                return "the receive handler got %d bytes before the handshake was complete" % a[3]
            if peer_of.get(key) == "plain":
                return "a non-TLS peer's bytes were delivered to the receive handler"
            delivered_k[key] = delivered_k.get(key, 0) + a[3]
        elif k == 2:
            waited += a[2]
        elif k == 20 and seg_i < len(rets) and i == rets[seg_i]:
            opc = a[0]
            top = tops[seg_i][1] if seg_i < len(tops) else []
            key = top[0] if top else None
            T = {23: top[2] if len(top) > 2 else 0, 24: top[2] if len(top) > 2 else 0, 32: top[1] if len(top) > 1 else 0}.get(opc, 0)
            if opc in (23, 24, 32) and T > 0 and waited > T * 1000000:
                return "operation %d with time-out %d ms spent %d ns waiting in poll (its time budget was restarted between TLS records)" % (opc, T, waited)
            waited = 0
            if opc in (23, 24, 32) and key in peer_of:
                if a[1] == 0 and a[2:4] == [1, E_SSL] and not fatal_k.get(key):
                    return ("operation %d on TLS socket %d failed with an SSL error although the engine never reported one for this connection "
                            "(an error left behind by another connection was attributed to it)" % (opc, key))
                if opc in (24, 32) and a[1] == 1 and a[2] >= 0:
                    n = a[2] if opc == 24 else a[3]
                    if n == 0:
                        return "Receive returned an empty %s: a Receive reports between 1 and the offered size bytes, never 0 (C01)" % ("buffer" if opc == 32 else "result (0 bytes)")
                    if n > 0:
                        if not init_k.get(key):
                            return "Receive returned %d bytes before the handshake was complete" % n
                        if peer_of[key] == "plain":
                            return "a non-TLS peer's bytes were delivered by Receive"
                        delivered_k[key] = delivered_k.get(key, 0) + n
                if opc == 23 and a[1] == 1 and a[2] > 0 and not init_k.get(key):
                    return "Send reported %d bytes accepted before the handshake was complete" % a[2]
                if opc == 23 and a[1] == 1 and a[2] > 0 and peer_of[key] == "plain":
                    return "Send to a non-TLS peer reported success"
            seg_i += 1
    for key, n in delivered_k.items():
        if n > p["app"]:
            return "delivered %d bytes on socket %d, the peer sent %d" % (n, key, p["app"])
    init = bool(socks) and init_k.get(socks[0][0], False)
    # liveness of the driver-mode handshake: with a TLS peer that answers every flight and a kernel that is writable again
    # at the next poll, a dozen Steps suffice
    end = tr[-1]
    if p["level"] == "async" and p["peer"] == "tls" and not fatal_seen and end[0] == 99 and end[1][0] == 0 and not init:
        nsteps = sum(1 for k, a in tr if k == 20 and a[0] == 41 and a[1] == 1)
        registered = any(k == 20 and a[0] == 60 and a[1] == 1 for k, a in tr)
        if registered and nsteps >= 14:
            return "the handshake did not complete although %d Steps ran against a responsive TLS peer" % nsteps
    return None


def nontrivial_key(c, tr):
    if not tr or tls_fd(tr) is None:
        return None
    if not any(k == 40 for k, a in tr):
        return None
    if any(k == 99 and a[0] == 2 for k, a in tr):
        return None
    return c.key()


def distribution(cases):
    d = {"cases": len(cases), "role": {}, "level": {}, "peer": {}, "fatal_injected": 0, "not_writable": 0, "short_writes": 0, "peer_closes": 0, "truncated_blocked": 0,
         "engine_events": 0, "os_events": 0}
    for c in cases:
        p = plan_of(c)
        if not p:
            continue
        for f in ("role", "level", "peer"):
            d[f][p[f]] = d[f].get(p[f], 0) + 1
        d["fatal_injected"] += 1 if p["fatal"] else 0
        d["not_writable"] += 1 if p["nw"] else 0
        d["short_writes"] += 1 if p["short"] else 0
        d["peer_closes"] += p["close"]
        d["truncated_blocked"] += 1 if c.meta.get("blocked") else 0
        d["engine_events"] += sum(1 for k, _ in c.evs if k == 8)
        d["os_events"] += sum(1 for k, _ in c.evs if k != 8)
    return d


def project(tr):
    # API results with the complete exception code (the TLS layer's error codes are part of what is compared)
    # (the K_ENGCALL entry names the socket: by key in the model, by descriptor in the harness — both map to its creation order)
    order = {}
    for i, (key, sfd, role) in enumerate(tls_socks(tr)):
        order[key] = i
        order[sfd] = i
    return (project_async(tr) + [(c, a) for c, a in tr if c in (40, 41, 2)] + [(c, a[:2] + [order.get(a[2], -1)] if len(a) > 2 else a) for c, a in tr if c == 42]
            + [(c, a) for c, a in tr if c == 20 and a[1] == 0])


def real_openssl_stage(rep, tier, seed):
    """end-to-end regressions against REAL OpenSSL (no scripted engine): the library of /repo's current tree built WITH_TLS
    and linked with libssl; real loopback sockets, real handshakes. f8: asynchronous server, blocking client that sends right behind
    its Finished, writability polls on the driver thread delayed (interposed poll); f9: asynchronous client that only listens."""
    import shutil, tempfile
    out = []
    try:
        r = sh([os.path.join(VERIF, "harness", "build.sh"), "tls"], timeout=900)
        if r.returncode != 0:
            return [("realssl", "the library could not be built WITH_TLS against /repo's current tree:\n" + r.stderr[-3000:])]
        libdir = r.stdout.strip().split("\n")[-1]
        work = os.path.join(BUILD, "real_openssl")
        os.makedirs(work, exist_ok=True)
        if not os.path.exists(os.path.join(work, "cert.pem")):
            k = sh(["openssl", "req", "-x509", "-newkey", "rsa:2048", "-nodes", "-keyout", "key.pem", "-out", "cert.pem", "-days", "3650", "-subj", "/CN=localhost"],
                   cwd=work, timeout=120)
            if k.returncode != 0:
                rep.cov["real_openssl"] = "skipped: could not create a certificate (%s)" % k.stderr[-200:]
                return []
        runs = []
        for name, argsets in (("f8_pending_data_demo", [["0", "2"], ["1", "1"], ["1", "2"], ["2", "2"]]), ("f9_idle_client_demo", [[]]),
                              ("f10_large_send_demo", [["147457"], ["1000000"]]), ("f12_async_large_buffer_demo", [["100000", "60"]]),
                              ("f14_record_larger_than_buffer_demo", [["5000", "512"], ["16000", "2048"]]), ("f16_error_queue_demo", [[]]), ("f15_budget_demo", [["200"], ["50"]])):
            exe = os.path.join(libdir, name)
            src = os.path.join(VERIF, "corpus", "real_openssl", name + ".cpp")
            if not os.path.exists(exe) or os.path.getmtime(exe) < os.path.getmtime(src):
                c = sh(["g++", "-std=c++17", "-O1", "-DSOCKPUPPET_WITH_TLS", "-I" + os.path.join(REPO, "include"), "-I" + os.path.join(REPO, "src"), src,
                        os.path.join(libdir, "libsp.a"), "-lssl", "-lcrypto", "-lpthread", "-o", exe], timeout=600)
                if c.returncode != 0:
                    return [("realssl", "the real-OpenSSL regression %s does not build against /repo's current tree:\n%s" % (name, c.stderr[-3000:]))]
            for a in argsets:
                # real sockets and threads: a loaded machine can make one run miss its 5 s deadline, a genuine defect fails every time
                ok, txt = False, ""
                for attempt in range(3):
                    try:
                        p = subprocess.run([exe] + a, cwd=work, capture_output=True, text=True, timeout=60)
                        ok = p.returncode == 0 and "PASS" in p.stdout
                        txt = (p.stdout + p.stderr)[-1500:]
                    except subprocess.TimeoutExpired:
                        ok, txt = False, "timed out after 60 s"
                    if ok:
                        break
                runs.append("%s %s: %s" % (name, " ".join(a), "PASS" if ok else "FAIL"))
                if not ok:
                    out.append(("realssl", "# real OpenSSL, real sockets: %s %s fails on /repo's current tree\n# build: g++ -std=c++17 -DSOCKPUPPET_WITH_TLS -I/repo/include -I/repo/src "
                                "%s <libsp.a of harness/build.sh tls> -lssl -lcrypto -lpthread; run in a directory with cert.pem/key.pem\n%s\n" % (name, " ".join(a), src, txt)))
        rep.cov["real_openssl"] = runs
        rep.cov["evaluations"] = rep.cov.get("evaluations", 0) + len(runs)
    except Exception as e:      # the stage is supporting evidence: a broken environment must not turn into an alarm
        rep.cov["real_openssl"] = "skipped: %r" % (e,)
    return out


def corpus():
    import os
    out = []
    for name in ("C18_pending_data.txt", "C18_idle_client.txt", "C18_large_send.txt", "C18_large_send_async.txt", "C18_stale_view.txt", "C18_record_larger_than_buffer.txt"):
        f = os.path.join(VERIF, "corpus", name)
        if os.path.exists(f):
            out += parse_cases(open(f).read())
    return out


SPEC = {
    "id": "C18", "corpus": corpus, "extra": real_openssl_stage, "module": "Properties_C18", "theorems": THEOREMS, "harness": "simtls", "flavour": "tlssan",
    "generate": generate, "project": project, "nontrivial_key": nontrivial_key, "monitor": monitor,
    "distribution": distribution, "chooser": kernel, "search_rounds": 2, "finding_key": finding_key,
    "rule": "one TLS socket per case (two in the 'dual' scenarios: a TLS and a non-TLS peer served by one thread) in client or server (accepted) role, basic / buffered / asynchronous API, every timeout mode and order of first Send/Receive; the scripted engine "
            "plays a TLS-1.3 endpoint (flights 120/900/60/260 bytes, records with 22 bytes overhead, close_notify), the virtual peer answers each flight once ours is on the wire, "
            "may be a non-TLS peer, may close, sends 0-3000 bytes in records of 7-16384; the kernel delivers records in segments of 1..5000 bytes, is 'not writable' at 0-60% of the "
            "limited polls, writes short at 0-30% of the sends; fatal engine errors injected at the 1st-5th engine call. ASan+UBSan, asserts on. non-trivial: the engine was entered and no usage-rule violation.",
    "assumptions": ["OpenSSL is replaced by the scripted engine on BOTH sides: that real OpenSSL behaves like some engine script (records only after the handshake, WANT_READ/WANT_WRITE exactly when the BIO "
                    "callbacks set their retry flags, ciphertext output) is assumed, not checked here",
                    "at most two TLS sockets per case; TLS acceptors are used synchronously (Listen), the accepted socket may then be made asynchronous"],
}


def main(tier, seed, replay=None):
    # the sanitizer build is ~10x slower under the adaptive script growth: thorough tier only
    SPEC["flavour"] = "tlssan" if tier == "thorough" else "tls"
    return run_sim_check(SPEC, tier, seed, replay)
