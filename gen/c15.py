"""C15 — peer failure at any point is reported, never fatal (plain TCP; TLS: C18).

The kernel of these scenarios is a small faithful TCP endpoint whose PEER closes (FIN), half-closes (shutdown(WR)) or
resets (RST) the connection at a chosen position of a bidirectional transfer: after k bytes of the local side's output
were accepted (k = 0: before anything; k inside a send: during it) or after j bytes of the peer's output were consumed
(with data still unread). From then on poll/send/recv answer like Linux does for such a connection. The plan is encoded
in the case id so that a replay needs nothing else. Model and implementation must agree on every case; the monitor
checks on the IMPLEMENTATION's trace: no SIGPIPE/crash, every send carries MSG_NOSIGNAL, operations issued on the dead
connection throw, an unlimited Send does not hang, asynchronous sockets get their disconnect handler exactly once and no
future stays pending, and what was delivered is a prefix of the peer's stream - all of it for an orderly close."""
from common import *
import random
from engine import run_sim_check
import adaptive
import drivercases as dc
from asyncchecks import project_async
from simgen import EINTR, EAGAIN, EPIPE, ECONNRESET, POLLIN, POLLOUT, POLLERR, POLLHUP

THEOREMS = ["unlimited_send_on_dead_peer_throws", "try_send_on_dead_peer_throws", "limited_send_on_dead_peer_throws", "receive_on_reset_throws", "receive_after_close_throws_closed",
            "delivered_is_what_recv_returned", "failing_send_leaves_a_prefix", "every_send_uses_nosignal", "data_before_disconnect"]
MSG_NOSIGNAL = 16384
ENOTCONN = 107


# ---------------------------------------------------------------------------------------------------------------
# the plan, carried in the case id:  <level>.<kind>.<o|i><pos>.t<total>.g<seg>.d<discard>.n<serial>
# ---------------------------------------------------------------------------------------------------------------
def plan_of(c):
    if "plan" in c.meta:
        return c.meta["plan"]
    t = c.id.split("-")[0].split(".")
    try:
        p = {"level": t[0], "kind": t[1], "trig": ("out" if t[2][0] == "o" else "in", int(t[2][1:])), "total": int(t[3][1:]),
             "seg": int(t[4][1:]), "discard": int(t[5][1:])}
    except (IndexError, ValueError):
        p = None
    c.meta["plan"] = p
    return p


def make_id(level, kind, trig, total, seg, discard, n):
    return "%s.%s.%s%d.t%d.g%d.d%d.n%d" % (level, kind, trig[0][0], trig[1], total, seg, discard, n)


class Peer:
    """state of the connection as the local kernel sees it, obtained by replaying the trace"""
    def __init__(self, plan):
        self.p = plan
        self.sent = 0          # bytes of local output accepted
        self.recvd = 0         # bytes of peer output consumed
        self.fired = False     # the peer has acted
        self.err_pending = False   # ECONNRESET not yet reported to anybody
        self.rst = False       # the connection is reset (RST seen): sends fail
        self.sends_after_close = 0
        self.discarded = False
        self.fire_if_due()

    def avail(self):
        if self.discarded:
            return 0
        return self.p["total"] - self.recvd

    def fire_if_due(self):
        if self.fired:
            return
        w, pos = self.p["trig"]
        if (w == "out" and self.sent >= pos) or (w == "in" and self.recvd >= pos):
            self.fired = True
            if self.p["kind"] == "reset":
                self.rst = True
                self.err_pending = True
                if self.p["discard"]:
                    self.discarded = True

    def eof_visible(self):
        return self.fired and self.p["kind"] in ("close", "half") and self.avail() == 0

    def dead(self):
        """nothing more can be exchanged in at least one direction and the local side can know"""
        return self.rst or self.eof_visible()

    # replay of what happened
    def on_send(self, ret):
        if ret > 0:
            self.sent += ret
            if self.fired and self.p["kind"] == "close" and not self.rst:
                self.rst = True            # data sent to a closed peer is answered by RST
                self.err_pending = False   # reported as EPIPE by the next send
        elif ret < 0 and self.rst:
            self.err_pending = False
        self.fire_if_due()

    def on_recv(self, ret):
        if ret > 0:
            self.recvd += ret
        elif ret < 0 and self.rst:
            self.err_pending = False
        self.fire_if_due()

    # answers
    def bits(self, ev):
        b = 0
        if self.rst:
            b |= POLLERR | POLLHUP
            if ev & POLLIN:
                b |= POLLIN
            if ev & POLLOUT:
                b |= POLLOUT
            return b
        if ev & POLLIN and (self.avail() > 0 or self.eof_visible()):
            b |= POLLIN
        if ev & POLLOUT:
            b |= POLLOUT
        return b

    def send_answer(self, ln, rnd):
        if self.rst:
            return [-1, ECONNRESET if self.err_pending else EPIPE]
        w, pos = self.p["trig"]
        room = ln
        if not self.fired and w == "out" and pos > self.sent:
            room = min(ln, pos - self.sent)          # land exactly on the trigger position: the peer acts "during" this Send
        elif ln > 1 and rnd.random() < 0.3:
            room = rnd.choice([1, ln - 1, max(1, ln // 2)])
        return [room, 0]

    def recv_answer(self, size, rnd):
        if self.avail() > 0:
            n = min(size, self.avail(), self.p["seg"])
            w, pos = self.p["trig"]
            if not self.fired and w == "in" and pos > self.recvd:
                n = min(n, pos - self.recvd)
            return [max(1, n), 0]
        if self.rst:
            return [-1, ECONNRESET] if self.err_pending else [0, 0]
        if self.fired and self.p["kind"] in ("close", "half"):
            return [0, 0]
        return [-1, EAGAIN]


def tcp_fd(tr):
    for k, a in tr:
        if k == 20 and a[1] == 1:
            if a[0] == 20:
                return a[2]
            if a[0] == 27 and a[2] == 1:
                return a[4]
    return None


def replay_peer(c, tr, upto=None):
    p = Peer(plan_of(c))
    fd = tcp_fd(tr)
    for i, (k, a) in enumerate(tr):
        if upto is not None and i >= upto:
            break
        if k == 3 and a[0] == fd:
            p.on_send(a[3])
        elif k == 4 and a[0] == fd:
            p.on_recv(a[2])
    return p, fd


def kernel(c, kind, a, tr, rnd):
    import zlib
    # answers depend on the case and the position only: both growth passes (see generate) make the same choices
    rnd = random.Random(zlib.crc32(c.id.split("-")[0].encode()) * 1000 + len(c.evs))
    p, fd = replay_peer(c, tr)
    if kind == 1:
        return [0]
    if kind == 2:
        timeout = a[0]
        fds = [(a[i], a[i + 1]) for i in range(3, len(a) - 1, 2)]
        rev = []
        from c14 import pipe_of
        pf, pt = pipe_of(tr)
        for f, ev in fds:
            if f == fd:
                rev.append(p.bits(ev))
            elif pt is not None and f == pt:
                pending = sum(1 for k, x in tr if k == 5 and x[0] == pf and x[3] > 0) - sum(1 for k, x in tr if k == 6 and x[0] == pt and x[2] >= 0)
                rev.append(POLLIN if pending > 0 else 0)
            elif ev & POLLIN and fd is None:
                rev.append(POLLIN)         # the acceptor before the connection exists
            else:
                rev.append(0)
        n = sum(1 for x in rev if x)
        if n == 0:
            if timeout >= 0:
                return [0, 0, timeout * 1000000] + rev
            return None                    # nothing will ever happen: the call blocks (the case ends here)
        return [n, 0, 0] + rev
    if kind == 3:
        return p.send_answer(a[1], rnd)
    if kind == 4:
        return p.recv_answer(a[1], rnd)
    if kind == 5:
        return [a[1], 0]
    if kind == 6:
        return [1, 0, 2]
    if kind == 7:
        return [0, 5]
    return None


# ---------------------------------------------------------------------------------------------------------------
# scenarios
# ---------------------------------------------------------------------------------------------------------------
TS = [-1, -1, 0, 7]


def gen_ops(rnd, level):
    ops = []
    out_total = 0
    if level in ("basic", "buffered", "server"):
        if level == "server":
            ops += [(22, [9]), (27, [9, -1, 1])]
        else:
            ops += [(20, [1])]
        if level == "buffered":
            ops += [(30, [1, rnd.choice([1, 2, 3]), rnd.choice([8, 64])])]
        for _ in range(rnd.choice([2, 3, 5, 8])):
            if rnd.random() < 0.5:
                size = rnd.choice([1, 5, 40, 1000])
                ops.append((23, [1, size, rnd.choice(TS)]))
                out_total += size
            elif level == "buffered":
                ops.append((32, [1, rnd.choice(TS)]))
                if rnd.random() < 0.6:
                    ops.append((14, []))
            else:
                ops.append((24, [1, rnd.choice([1, 8, 64]), rnd.choice(TS)]))
        ops += [(14, []), (28, [1])]
        if level == "server":
            ops += [(28, [9])]
    else:   # async
        ops += [(1, [1]), (2, []), (1, [2]), (2, []), (40, []), (10, [9, 0, 0]), (20, [1]), (30, [1, rnd.choice([1, 2]), rnd.choice([8, 64])]),
                (60, [1, 1, 2])]
        for _ in range(rnd.choice([3, 5, 8, 12])):
            if rnd.random() < 0.4:
                size = rnd.choice([1, 5, 40, 1000])
                ops.append((1061, [1, 9, size]))
                out_total += size
            else:
                ops.append((41, [rnd.choice([0, 0, 3, -1])]))
        ops += [(41, [0]), (41, [0]), (41, [0]), (14, []), (1028, [1]), (44, [])]
    return ops, out_total


def generate(rnd, tier):
    n = {"quick": 700, "thorough": 7000, "search": 1500}[tier]
    cases = []
    for i in range(n):
        level = rnd.choice(["basic", "basic", "buffered", "server", "async", "async"])
        ops, out_total = gen_ops(rnd, level)
        kind = rnd.choice(["close", "half", "reset", "reset"])
        total = rnd.choice([0, 5, 30, 200])
        if rnd.random() < 0.6:
            trig = ("out", rnd.choice([0, 0, 1, max(0, out_total // 2), max(0, out_total - 1), out_total, rnd.randint(0, max(1, out_total))]))
        else:
            trig = ("in", rnd.choice([0, total // 2, total, rnd.randint(0, max(1, total))]))
            if trig[1] > total:
                trig = ("in", total)
        c = Case(make_id(level, kind, trig, total, rnd.choice([1, 7, 64]), rnd.choice([0, 1]), i), ops, [], [], {"kind": "peer", "flavour": level})
        c.meta["pipe_fd"] = 1001
        cases.append(c)
    adaptive.grow(cases, kernel, rnd)
    # second pass for resets: from the moment the RST arrived getpeername() fails with ENOTCONN (rule overlay), like Linux
    traces = run_exe(model_exe(), cases)
    again = []
    for c in cases:
        tr = traces.get(c.id)
        if plan_of(c)["kind"] != "reset" or not tr:
            continue
        nsys = 0
        pr = Peer(plan_of(c))
        fd = tcp_fd(tr)
        at = None
        connected = False
        for k, a in tr:
            if connected and pr.rst:
                at = nsys
                break
            if k == 8:
                nsys += 1
            elif k == 3 and a[0] == fd:
                pr.on_send(a[3])
            elif k == 4 and a[0] == fd:
                pr.on_recv(a[2])
            elif k == 20 and a[1] == 1 and (a[0] == 20 or (a[0] == 27 and a[2] == 1)):
                connected = True
        if at is None:
            continue
        c.faults = [(-(100 * at + 10), ENOTCONN)]
        c.evs = []
        c.meta.pop("blocked", None)
        again.append(c)
    adaptive.grow(again, kernel, rnd)
    return cases


# ---------------------------------------------------------------------------------------------------------------
# the monitor
# ---------------------------------------------------------------------------------------------------------------
def monitor(c, tr):
    if not tr:
        return "no trace"
    plan = plan_of(c)
    if plan is None:
        return None
    for k, a in tr:
        if k == 98:
            n = a[0] if a else -1
            if n == 13:
                return "the process was killed by SIGPIPE (a send without MSG_NOSIGNAL on a reset connection)"
            if n == 14:
                return "the call never returned: hangs on a dead connection (watchdog)"
            if n >= 1000:
                return "the process died with exit status %d (sanitizer report)" % (n - 1000)
            return "crashed / aborted (signal %d)" % n
        if k == 97:
            return "trace garbled (process died)"
        if k == 90:
            return "anomaly %s (delivered bytes are not the peer's stream / wrong bytes sent)" % a
        if k == 99 and a[0] == 2:
            return "undefined behaviour reached (model code %d)" % a[1]
        if k == 3 and a[2] != MSG_NOSIGNAL:
            return "send(%d) without MSG_NOSIGNAL (flags %d): SIGPIPE would kill the process once the peer is gone" % (a[0], a[2])
    fd = tcp_fd(tr)
    if fd is None:
        return None
    from c14 import top_ops, segments
    rets = segments(c, tr)
    tops = top_ops(c)
    p = Peer(plan)
    api_delivered = 0
    start_state = None
    seg_i = 0
    disconnects = 0
    polls_after_dead = 0
    futures = {}
    closed_reported = False
    op_start = True
    for i, (k, a) in enumerate(tr):
        if op_start:
            start_state = (p.rst, p.eof_visible(), p.err_pending, p.avail())
            op_start = False
        if k == 3 and a[0] == fd:
            p.on_send(a[3])
        elif k == 4 and a[0] == fd:
            p.on_recv(a[2])
        elif k == 2:
            fds = [a[j] for j in range(3, len(a) - 1, 2)]
            if p.dead() and p.avail() == 0 and fd in fds and len(fds) > 1:
                polls_after_dead += 1
        elif k == 21:
            if a[0] == 2:
                disconnects += 1
                if plan["kind"] in ("close", "half") and not p.rst and api_delivered != plan["total"]:
                    return "disconnect reported after %d of the %d bytes the peer sent before its orderly close (stream incomplete)" % (api_delivered, plan["total"])
            elif a[0] == 1:
                api_delivered += a[3]
        elif k == 22:
            futures[a[0]] = a[1]
        elif k == 20:
            if seg_i < len(rets) and i == rets[seg_i]:
                opc = a[0]
                rst0, eof0, errp0, avail0 = start_state
                if opc in (41, 42) and a[1] == 0 and p.dead():
                    return "the peer's %s escaped from Step/Run as exception %s (no disconnect handler, fatal in a Run thread)" % (plan["kind"], a[2:])
                if opc == 23 and tops[seg_i][1][1] > 0:
                    if rst0 and a[1] == 1:
                        return "Send on a reset connection returned %s instead of throwing" % a[2:]
                    if a[1] == 1 and tops[seg_i][1][2] < 0 and a[2] < tops[seg_i][1][1] and p.fired:
                        return ("Send with unlimited timeout returned %d of %d bytes without an exception after the peer's %s during the send"
                                % (a[2], tops[seg_i][1][1], plan["kind"]))
                elif opc in (24, 32):
                    if a[1] == 1 and a[2] >= 0:
                        api_delivered += a[2] if opc == 24 else a[3]
                    if a[1] == 1 and avail0 == 0 and (eof0 or (rst0 and errp0)):
                        return "Receive on a %s connection returned %s instead of throwing" % ("closed" if eof0 else "reset", a[2:])
                    if a[1] == 0 and a[2:4] == [3, 0]:
                        closed_reported = True
                        if plan["kind"] in ("close", "half") and not p.rst and api_delivered != plan["total"]:
                            return "connection-closed reported after %d of the %d bytes the peer sent before its orderly close" % (api_delivered, plan["total"])
                seg_i += 1
                op_start = True
    if api_delivered > plan["total"]:
        return "delivered %d bytes although the peer sent only %d" % (api_delivered, plan["total"])
    if p.recvd != api_delivered and plan["level"] != "async":
        pass   # bytes consumed by a Receive that threw afterwards do not exist: recv returns them or fails
    if disconnects > 1:
        return "disconnect handler called %d times" % disconnects
    end = tr[-1]
    completed = end[0] == 99 and end[1][0] == 0
    if plan["level"] == "async" and completed:
        if polls_after_dead >= 2 and disconnects == 0 and not any(v == 2 for v in futures.values()):
            return "the peer's %s was visible to %d Steps but neither the disconnect handler ran nor a send future failed" % (plan["kind"], polls_after_dead)
        pend = [f for f, v in futures.items() if v == 0]
        if pend:
            return "send future(s) %s still pending after the socket was destroyed" % pend
    return None


def nontrivial_key(c, tr):
    if not tr:
        return None
    p, fd = replay_peer(c, tr)
    if fd is None or not p.fired:
        return None
    # something was attempted after the peer acted
    return c.key() if (p.rst or p.eof_visible()) else None


def distribution(cases):
    d = {"cases": len(cases), "level": {}, "peer_action": {}, "trigger": {"out": 0, "in": 0, "at_zero": 0}, "truncated_blocked": 0, "events": 0}
    for c in cases:
        p = plan_of(c)
        if not p:
            continue
        d["level"][p["level"]] = d["level"].get(p["level"], 0) + 1
        d["peer_action"][p["kind"]] = d["peer_action"].get(p["kind"], 0) + 1
        d["trigger"][p["trig"][0]] += 1
        d["trigger"]["at_zero"] += 1 if p["trig"][1] == 0 else 0
        d["truncated_blocked"] += 1 if c.meta.get("blocked") else 0
        d["events"] += len(c.evs)
    return d


SPEC = {
    "id": "C15", "module": "Properties_C15", "theorems": THEOREMS, "harness": "sim", "flavour": "san",
    "generate": generate, "project": project_async, "nontrivial_key": nontrivial_key, "monitor": monitor,
    "distribution": distribution, "chooser": kernel, "search_rounds": 3,
    "rule": "bidirectional transfers on basic / buffered / accepted (server side) / asynchronous TCP sockets, every timeout mode, against a scripted TCP endpoint whose peer "
            "closes, half-closes or resets at a random byte offset of either direction (before, inside or after a Send; with unread data; reset discarding or keeping unread data); "
            "afterwards poll/send/recv answer like Linux (EOF after the data, first send after FIN accepted then EPIPE, ECONNRESET once then EPIPE/0, POLLERR|POLLHUP). "
            "Virtual kernel raises SIGPIPE for an EPIPE send without MSG_NOSIGNAL. non-trivial: the peer's action became visible and operations followed.",
    "assumptions": ["the scripted endpoint's answers for a dead connection follow Linux's TCP (not proved)", "TLS variants: C18",
                    "a Receive with unlimited time-out on a live, silent connection blocks by specification: such cases end there (counted as truncated)"],
}


def main(tier, seed, replay=None):
    return run_sim_check(SPEC, tier, seed, replay)
