"""C07 — time-outs mean what the documentation says (blocking socket operations and Driver::Step)."""
from common import *
from engine import run_sim_check
from sockcases import *

THEOREMS = ["receive_timeouts", "recvfrom_timeouts", "sendto_timeouts", "send_timeouts", "wait_timeouts", "to_msec_never_wraps"]

OPT = {23: 2, 24: 2, 25: 3, 26: 2, 27: 1, 32: 1, 33: 1}   # index of the timeout argument per op


def generate(rnd, tier):
    cases = generate_sync(rnd, tier, 1000)
    try:
        import drivercases
        cases += drivercases.generate_step_timeouts(rnd, tier)
    except ImportError:
        pass
    return cases


def project(tr):
    # every poll with its time-out, result and duration; every clock reading; result kinds
    out = []
    for c, a in tr:
        if c == 2:
            out.append((c, a[:3]))
        elif c == 1:
            out.append((c, a))
        elif c == 20:
            out.append((c, a[:3]))
        elif c in (90, 98):
            out.append((c, a))
        elif c == 99:
            out.append((c, a[:2]))
    return out


def nontrivial_key(c, tr):
    polls = [a for k, a in tr if k == 2]
    if len(polls) < 2:
        return None
    return c.key()


def is_nothing(opc, oa, ret):
    if ret[1] != 1:
        return False
    if opc in (24, 26, 32, 33):
        return ret[2] == -1
    if opc == 27:
        return ret[2] == 0
    if opc == 25:
        return ret[2] == 0 and oa[1] > 0
    if opc == 23:
        return ret[2] < oa[1]
    return False


def monitor(c, tr):
    cr = crashed(tr)
    if cr:
        return cr
    segs, _ = split_by_op(c, tr)
    instant = c.meta.get("instant", False)
    for (opc, oa), seg, ret in segs:
        if opc not in OPT:
            continue
        T = oa[OPT[opc]]
        if abs(T) >= 2 ** 31:
            continue
        polls = [a for k, a in seg if k == 2]
        honest_up = all(p[2] <= p[0] * NS for p in polls if p[0] >= 0)
        honest_lo = all(p[2] >= p[0] * NS for p in polls if p[0] >= 0 and p[1] == 0)
        elapsed = sum(p[2] for p in polls)
        if T < 0:
            if any(p[0] >= 0 for p in polls):
                return "unlimited operation polled with a limited time-out %s" % [p[0] for p in polls]
            if is_nothing(opc, oa, ret) and not (polls and polls[-1][1] == 0):
                return "unlimited operation returned 'nothing' (op %d)" % opc
        elif T == 0:
            if any(p[0] != 0 for p in polls):
                return "zero time-out operation polled with %s" % [p[0] for p in polls]
        else:
            if any(p[0] < 0 for p in polls):
                return "limited operation (T=%d) polled with a negative (= unlimited) time-out" % T
            if any(p[0] > T for p in polls):
                return "limited operation (T=%d) polled with a larger time-out %s" % (T, [p[0] for p in polls])
            if instant and opc in (24, 25, 26, 27, 32, 33):
                # one wait: after an interruption it goes on with the time REMAINING, never with a fresh budget
                before = 0
                for p in polls:
                    if p[0] * NS + before > T * NS:
                        return "wait resumed with %d ms although only %d ns of the %d ms budget are left (budget restarted)" % (p[0], T * NS - before, T)
                    before += p[2]
            if instant and honest_up and elapsed > T * NS:
                return "blocked %d ns in total with T=%d ms (op %d)" % (elapsed, T, opc)
            if is_nothing(opc, oa, ret) and honest_lo and polls and polls[-1][1] == 0:
                slack = 2 * NS if opc == 23 else NS
                clock = sum(a[0] for k, a in c.evs if k == 1)   # time passing at clock reads only helps
                if elapsed + clock <= T * NS - slack:
                    return "returned 'nothing' after %d ns with T=%d ms (op %d)" % (elapsed, T, opc)
    try:
        import drivercases
        return drivercases.monitor_step_timeouts(c, tr)
    except ImportError:
        return None


SPEC = {
    "id": "C07", "module": "Properties_C07", "theorems": THEOREMS, "harness": "sim",
    "generate": generate, "project": project, "nontrivial_key": nontrivial_key, "monitor": monitor,
    "distribution": distribution,
    "rule": "every blocking socket operation (TCP Send/Receive, UDP SendTo/ReceiveFrom, Listen, buffered variants) with T in "
            "{-1,-7,-2^31+1,0,1,2,5,100,999,2^31-1} under a virtual clock: event arriving before / exactly at / 1 ns or 1 ms around / after the deadline / never, "
            "partial sends consuming the budget, 0-5 EINTR results per wait, clock reads that take time or not. Compared: time-out argument, result and "
            "duration of every poll and every clock reading. non-trivial: >= 2 polls; distinct by case text.",
    "assumptions": ["virtual clock instead of real time; user code run inside Step is not counted", "TLS operations: see C18"],
}


def main(tier, seed, replay=None):
    return run_sim_check(SPEC, tier, seed, replay)
