"""C03 — async events: in-order data, exactly-one disconnect, exactly-one connect."""
from common import *
from engine import run_sim_check
import drivercases as dc
from asyncchecks import *

THEOREMS = ["one_socket_per_step", "socket_task_first_ready", "socket_task_priority", "unregister_removes_both", "receive_delivers_what_recv_returned", "disconnect_unregisters_first", "disconnected_socket_is_never_dispatched_again"]


def generate(rnd, tier):
    k = {"quick": 400, "thorough": 4000, "search": 1200}[tier]
    cases = [dc.gen_async_case(rnd, i, rnd.choice(["tcp", "tcp", "acc", "mixed"])) for i in range(k)]
    for j, c in enumerate(cases):
        c.id = "%s-%d" % (c.id, j)
        c.meta["profile"] = {"timeout": 0.15, "pipe": 0.05, "close": 0.15, "hup": 0.1}
    return dc.grow(cases, dc.chooser, rnd)


def nontrivial_key(c, tr):
    n = sum(1 for k, a in tr if k == 21 and a[0] in (1, 2, 3))
    return c.key() if n >= 1 else None


SPEC = {
    "id": "C03", "module": "Properties_C03", "theorems": THEOREMS, "harness": "sim",
    "generate": generate, "project": project_async, "nontrivial_key": nontrivial_key, "monitor": dc.monitor_async,
    "distribution": distribution,
    "rule": "1-3 asynchronous TCP sockets and acceptors on one driver (receive buffers: count {0,1,2,3}, size {1,8,64,100,OS default}); the scripted kernel "
            "chooses which descriptors are ready in which order (POLLIN, POLLOUT, POLLHUP/POLLERR alone or together with POLLIN), every segmentation of the incoming "
            "stream (1, n-1, n/2, n bytes), peer close (recv 0) and errors at any point, accept successes and failures; handlers keep or drop buffers, send, destroy "
            "their socket in the disconnect handler, adopt accepted sockets, throw. non-trivial: >= 1 receive/disconnect/connect handler invocation.",
    "assumptions": ["kernel readiness semantics (poll reports only requested events + HUP/ERR) are trusted", "one driving thread; handler thread identity is structural in the model"],
}


def main(tier, seed, replay=None):
    return run_sim_check(SPEC, tier, seed, replay)
