"""drivercases.py — scenarios over Driver / ToDo / asynchronous sockets for the sim harness. Operation lists are drawn by a
state-aware random walker; the oracle script is grown with adaptive.grow (model-guided), the chooser below plays the kernel."""
import random
from common import *
from adaptive import grow
from simgen import NS, EINTR, EAGAIN, EPIPE, ECONNRESET, ENOMEM, EMSGSIZE, ENOBUFS, EMFILE, ECONNABORTED, EBADF, POLLIN, POLLOUT, POLLERR, POLLHUP

MS = NS


# ---------------------------------------------------------------------------------------------------------------
# the kernel
# ---------------------------------------------------------------------------------------------------------------
def chooser(c, kind, a, tr, rnd):
    prof = c.meta.get("profile", {})
    if kind == 1:
        if c.meta.get("instant"):
            return [0]
        return [rnd.choice([0, 0, 0, 1000, 400000, 1 * MS, 3 * MS, 7 * MS])]
    if kind == 2:
        timeout = a[0]
        fds = [(a[i], a[i + 1]) for i in range(3, len(a) - 1, 2)]
        n = len(fds)
        r = rnd.random()
        p_eintr = prof.get("eintr", 0.04)
        if r < p_eintr:
            dt = 0 if timeout == 0 else rnd.choice([0, 1 * MS, 2 * MS])
            if timeout > 0:
                dt = min(dt, timeout * MS)
            return [-1, EINTR, dt] + [0] * n
        if r < p_eintr + prof.get("pollerr", 0.01):
            return [-1, rnd.choice([ENOMEM, EBADF]), 0] + [0] * n
        p_to = prof.get("timeout", 0.3)
        if timeout >= 0 and rnd.random() < p_to:
            return [0, 0, timeout * MS + (0 if c.meta.get("instant") else rnd.choice([0, 0, 20000]))] + [0] * n
        # ready
        rev = [0] * n
        driver_poll = n >= 1 and c.meta.get("pipe_fd") == fds[0][0]
        cand = list(range(n))
        if driver_poll and n > 1 and rnd.random() > prof.get("pipe", 0.1):
            cand = list(range(1, n))
        k = 1 if rnd.random() < 0.8 else min(len(cand), 2)
        for i in rnd.sample(cand, k):
            ev = fds[i][1]
            x = rnd.random()
            if x < prof.get("hup", 0.08):
                rev[i] = rnd.choice([POLLHUP, POLLERR, POLLHUP | POLLIN, POLLERR | POLLHUP])
            else:
                bits = [b for b in (POLLIN, POLLOUT) if ev & b]
                rev[i] = rnd.choice(bits) if bits else POLLHUP
                if ev & POLLIN and ev & POLLOUT and rnd.random() < 0.2:
                    rev[i] = POLLIN | POLLOUT
        if timeout > 0:
            dt = rnd.choice([0, 1, timeout * MS // 2, timeout * MS - 1, timeout * MS])
        elif timeout == 0:
            dt = 0
        else:
            dt = rnd.choice([0, 0, 1 * MS, 5 * MS, 50 * MS])
        return [sum(1 for x in rev if x), 0, dt] + rev
    if kind == 3:
        ln = a[1]
        r = rnd.random()
        # aimed at the partial-write bookkeeping: fail the continuation of a buffer that was sent partially
        prev = [x for k, x in tr if k == 3 and x[0] == a[0] and x[3] != -1 or False]
        sends = [x for k, x in tr if k == 3 and x[0] == a[0]]
        if len(sends) >= 2 and 0 < sends[-2][3] < sends[-2][1] and rnd.random() < prof.get("fail_after_partial", 0.15):
            return [-1, rnd.choice([EAGAIN, 105, ECONNRESET])]
        if r < prof.get("senderr", 0.08):
            return [-1, rnd.choice([EAGAIN, EPIPE, ECONNRESET])]
        if r < prof.get("senderr", 0.08) + 0.02 and ln > 0:
            return [0, 0]
        if ln > 1 and r < prof.get("short", 0.35) + 0.1:
            return [rnd.choice([1, ln - 1, max(1, ln // 2), rnd.randint(1, ln)]), 0]
        return [ln, 0]
    if kind == 4:
        size = a[1]
        r = rnd.random()
        if r < prof.get("recverr", 0.07):
            return [-1, rnd.choice([EAGAIN, ECONNRESET])]
        if r < prof.get("recverr", 0.07) + prof.get("close", 0.1):
            return [0, 0]
        return [rnd.choice([1, size, max(1, size - 1), max(1, size // 2)]), 0]
    if kind == 5:
        ln = a[1]
        r = rnd.random()
        if r < prof.get("sendtoerr", 0.12):
            return [-1, rnd.choice([EMSGSIZE, ENOBUFS, EAGAIN])]
        if r < prof.get("sendtoerr", 0.12) + 0.03 and ln > 1:
            return [ln - 1, 0]
        return [ln, 0]
    if kind == 6:
        size = a[1]
        if rnd.random() < prof.get("recvfromerr", 0.08):
            return [-1, rnd.choice([EAGAIN, ENOMEM]), 0]
        return [rnd.choice([0, 1, size, max(0, size - 1), size // 2]), 0, rnd.choice([1, 2, 3])]
    if kind == 7:
        if rnd.random() < prof.get("accepterr", 0.12):
            return [rnd.choice([EMFILE, ECONNABORTED]), 0]
        return [0, rnd.choice([5, 6, 7])]
    return None


# ---------------------------------------------------------------------------------------------------------------
# operation lists
# ---------------------------------------------------------------------------------------------------------------
STEP_T = [-1, -1, 0, 0, 1, 2, 5, 10, 100]


class W:
    """random walker state"""
    def __init__(self, rnd):
        self.rnd = rnd
        self.ops = []
        self.blocks = {}
        self.nblock = 1
        self.ntodo = 1
        self.nsock = 1
        self.todos = []          # ids with live handle
        self.socks = {}          # key -> kind string
        self.pools = []

    def block(self, ops):
        b = self.nblock
        self.nblock += 1
        self.blocks[b] = ops
        return b

    def emit(self):
        out = []
        for b, ops in self.blocks.items():
            out.append((1, [b]))
            out += ops
            out.append((2, []))
        return out + self.ops


def todo_ops_inside(w, rnd, depth=0):
    """ops a task may perform: cancel/shift itself or others, create new ones, stop, throw"""
    ops = []
    for _ in range(rnd.choice([0, 1, 1, 2])):
        r = rnd.random()
        tid = rnd.choice(range(1, max(2, w.ntodo)))
        if r < 0.3:
            ops.append((51, [tid, rnd.choice([1, 2]), rnd.choice([0, 1, 3, 5, 8]) * (MS if rnd.random() < 0.5 else 1)]))
        elif r < 0.55:
            ops.append((52, [tid]))
        elif r < 0.7 and depth == 0:
            ops.append((50, [-1, rnd.choice([1, 2]), rnd.choice([0, 2, 6]) * MS if rnd.random() < 0.5 else rnd.choice([0, 2, 6]), 0]))
        elif r < 0.78:
            ops.append((43, []))
        elif r < 0.82:
            ops.append((95, [rnd.choice([1, 2])]))
    return ops


def gen_todo_case(rnd, i):
    w = W(rnd)
    w.ops.append((40, []))
    n = rnd.choice([1, 2, 3, 5])
    whens = [rnd.choice([0, 1, 2, 5, 5, 5, 9]) * MS + rnd.choice([0, 0, 1, -1]) for _ in range(n)]
    for k in range(n):
        tid = w.ntodo
        w.ntodo += 1
        blk = w.block(todo_ops_inside(w, rnd)) if rnd.random() < 0.6 else 0
        kind = rnd.choice([0, 1, 1, 1, 2])
        if kind == 2:
            val = rnd.choice([-3, 0, 1, 4, 7])
        else:
            val = max(-2 * MS, whens[k])
        # shifts referenced by id need the placeholder ids 1..n to exist: define all first
        w.ops.append((50, [tid, kind, val, blk]))
        w.todos.append(tid)
    for _ in range(rnd.choice([2, 4, 8])):
        r = rnd.random()
        if r < 0.5:
            w.ops.append((41, [rnd.choice(STEP_T)]))
        elif r < 0.62 and w.todos:
            w.ops.append((51, [rnd.choice(w.todos), rnd.choice([1, 2]), rnd.choice([0, 1, 4, 6, 12]) * (MS if rnd.random() < 0.6 else 1)]))
        elif r < 0.72 and w.todos:
            w.ops.append((52, [rnd.choice(w.todos)]))
        elif r < 0.8 and w.todos:
            t = rnd.choice(w.todos)
            w.todos.remove(t)
            w.ops.append((53, [t]))
        elif r < 0.86:
            w.ops.append((43, []))
            w.ops.append((42, []))
        elif r < 0.9:
            w.ops.append((42, []))
        else:
            w.ops.append((41, [rnd.choice([2 ** 31 - 1, -(2 ** 31) + 1])]))
    if rnd.random() < 0.2:
        w.ops.append((44, []))
        if w.todos:
            w.ops.append((51, [rnd.choice(w.todos), 1, 5 * MS]))
            w.ops.append((52, [rnd.choice(w.todos)]))
    c = Case("todo%d" % i, w.emit(), [], [], {"kind": "todo", "instant": rnd.random() < 0.5,
                                               "profile": {"timeout": 0.6, "pipe": 0.15, "eintr": 0.03}})
    c.meta["pipe_fd"] = 1001
    return c


def handler_ops(w, rnd, kind, own):
    """ops inside a socket handler; kind: 'recv' | 'disc' | 'recvfrom' | 'connect'"""
    ops = []
    r = rnd.random()
    if kind == "recv":
        if r < 0.3:
            ops.append((64, []))                       # keep the buffer
        if rnd.random() < 0.4 and w.pools:
            ops.append((61, [own, w.pools[0], rnd.choice([0, 1, 10, 3000])]))     # echo something
        if rnd.random() < 0.08:
            ops.append((95, [rnd.choice([1, 2])]))
    elif kind == "disc":
        if r < 0.5:
            ops.append((14, []))                        # pools must outlive their buffers
            ops.append((28, [own]))                    # destroy the socket inside its disconnect handler
        elif r < 0.7 and w.pools:
            ops.append((61, [own, w.pools[0], 5]))     # send on a socket whose peer already disconnected
    elif kind == "recvfrom":
        if r < 0.3:
            ops.append((64, []))
        if rnd.random() < 0.4 and w.pools:
            ops.append((62, [own, w.pools[0], rnd.choice([0, 1, 100]), rnd.choice([1, 2, 3])]))
    if rnd.random() < 0.15:
        ops.append((50, [-1, 2, rnd.choice([0, 3]), 0]))
    if rnd.random() < 0.05:
        ops.append((43, []))
    return ops


def add_async_tcp(w, rnd, from_sock=None):
    s = w.nsock
    w.nsock += 1
    count = rnd.choice([0, 1, 2, 3])
    size = rnd.choice([1, 8, 100, 0])
    h1 = w.nblock; w.blocks[h1] = []; w.nblock += 1
    h2 = w.nblock; w.blocks[h2] = []; w.nblock += 1
    w.blocks[h1] = handler_ops(w, rnd, "recv", s)
    w.blocks[h2] = handler_ops(w, rnd, "disc", s)
    w.ops += [(20, [s]), (30, [s, count, size])]
    # sometimes use the socket synchronously first (buffered receive that times out / succeeds), then hand it to the driver
    if rnd.random() < 0.3:
        w.ops.append((32, [s, rnd.choice([0, 0, 3])]))
        if rnd.random() < 0.5:
            w.ops.append((12, [rnd.randrange(2)]))
    w.ops.append((60, [s, h1, h2]))
    w.socks[s] = "tcp"
    return s


def add_async_udp(w, rnd):
    s = w.nsock
    w.nsock += 1
    h1 = w.nblock; w.blocks[h1] = []; w.nblock += 1
    w.blocks[h1] = handler_ops(w, rnd, "recvfrom", s)
    w.ops += [(21, [s]), (30, [s, rnd.choice([0, 1, 2]), rnd.choice([1, 100, 1472])])]
    if rnd.random() < 0.2:
        w.ops.append((33, [s, 0]))
    w.ops.append((60, [s, h1, 0]))
    w.socks[s] = "udp"
    return s


def add_acceptor(w, rnd):
    s = w.nsock
    w.nsock += 1
    h1 = w.nblock; w.blocks[h1] = []; w.nblock += 1
    ops = []
    if rnd.random() < 0.8:
        ns = 20 + w.nsock
        w.nsock += 1
        r1 = w.nblock; w.blocks[r1] = []; w.nblock += 1
        r2 = w.nblock; w.blocks[r2] = []; w.nblock += 1
        w.blocks[r1] = handler_ops(w, rnd, "recv", ns)
        w.blocks[r2] = handler_ops(w, rnd, "disc", ns)
        ops.append((14, []))                            # the key is reused per connection: nothing of the old socket's pool may be held
        ops.append((63, [ns, rnd.choice([0, 1, 2]), rnd.choice([1, 8, 64]), r1, r2]))
        w.socks[ns] = "tcp?"
    if rnd.random() < 0.06:
        ops.append((95, [rnd.choice([1, 2])]))
    w.blocks[h1] = ops
    w.ops += [(22, [s]), (60, [s, h1, 0])]
    w.socks[s] = "acc"
    return s


def gen_async_case(rnd, i, flavour=None):
    w = W(rnd)
    w.ops.append((40, []))
    w.ops.append((10, [1, rnd.choice([0, 0, 2, 4]), rnd.choice([0, 64])]))
    w.pools.append(1)
    flavour = flavour or rnd.choice(["tcp", "tcp", "udp", "acc", "mixed"])
    made = []
    if flavour in ("tcp", "mixed"):
        for _ in range(rnd.choice([1, 1, 2])):
            made.append(add_async_tcp(w, rnd))
    if flavour in ("udp", "mixed"):
        made.append(add_async_udp(w, rnd))
    if flavour in ("acc", "mixed"):
        made.append(add_acceptor(w, rnd))
    if rnd.random() < 0.3:
        tid = w.ntodo; w.ntodo += 1
        w.ops.append((50, [tid, 2, rnd.choice([0, 2, 5]), w.block(todo_ops_inside(w, rnd, 1))]))
        w.todos.append(tid)
    for _ in range(rnd.choice([3, 6, 12, 20])):
        r = rnd.random()
        live = [s for s in made if w.socks.get(s) in ("tcp", "udp")]
        if r < 0.5:
            w.ops.append((41, [rnd.choice(STEP_T)]))
        elif r < 0.8 and live:
            s = rnd.choice(live)
            if w.socks[s] == "tcp":
                w.ops.append((61, [s, 1, rnd.choice([0, 1, 7, 100, 5000])]))
            else:
                w.ops.append((62, [s, 1, rnd.choice([0, 1, 100, 1472]), rnd.choice([1, 2, 3])]))
        elif r < 0.86:
            w.ops.append((12, [rnd.randrange(6)]))
        elif r < 0.92 and made:
            s = rnd.choice(made)
            # pools must outlive their buffers: give everything back before destroying a socket from outside
            w.ops.append((14, []))
            w.ops.append((28, [s]))
            w.socks[s] = "dead"
        elif r < 0.95:
            w.ops.append((43, []))
            w.ops.append((42, []))
    # orderly end: sometimes driver first, sometimes sockets first
    if rnd.random() < 0.5:
        w.ops.append((14, []))
        order = list(w.socks.keys())
        rnd.shuffle(order)
        if rnd.random() < 0.5:
            w.ops.append((44, []))
            for s in order:
                w.ops.append((28, [s]))
        else:
            for s in order:
                w.ops.append((28, [s]))
            w.ops.append((44, []))
    c = Case("async%d" % i, w.emit(), [], [], {"kind": "async", "flavour": flavour, "instant": rnd.random() < 0.5,
                                                "profile": {"timeout": 0.25, "pipe": 0.08, "fail_after_partial": 0.3}})
    c.meta["pipe_fd"] = 1001
    return c


def generate_driver(rnd, tier, n_quick=400, what=("todo", "async")):
    k = {"quick": n_quick, "thorough": n_quick * 10, "search": n_quick * 3}[tier]
    cases = []
    for i in range(k):
        if "todo" in what and (i % 2 == 0 or "async" not in what):
            cases.append(gen_todo_case(rnd, i))
        else:
            cases.append(gen_async_case(rnd, i))
    for j, c in enumerate(cases):
        c.id = "%s-%d" % (c.id, j)
    return grow(cases, chooser, rnd)


# ---------------------------------------------------------------------------------------------------------------
# monitors: the properties, judged on the implementation's trace
# ---------------------------------------------------------------------------------------------------------------
INT_MAX = 2147483647


def crashed(tr):
    for k, a in tr:
        if k == 98:
            return "process died (signal/exit %s)" % a
    return None


def ops_of(c):
    """top-level ops (blocks removed) in order"""
    top, cur = [], None
    for o, a in c.ops:
        if cur is None:
            if o == 1:
                cur = a[0]
            else:
                top.append((o, a))
        elif o == 2:
            cur = None
    return top


def monitor_todos(c, tr):
    """C06 (+ the Step clauses of C07): never early, due order, exactly once, cancel, shift, promptness, poll bound"""
    cr = crashed(tr)
    if cr:
        return cr
    pending, seq = {}, 0
    last_now = None
    driver = False
    in_step = False
    step_first_now = None
    step_handlers = 0
    step_pending_at_start = None
    top = ops_of(c)
    ti = 0
    for idx, (k, a) in enumerate(tr):
        if k == 1:
            last_now = a[0]
            if in_step and step_first_now is None:
                step_first_now = a[0]
        elif k == 21 and a[0] == 5:
            tid = a[1]
            if tid not in pending:
                return "task of ToDo %d executed although it is not scheduled (cancelled, superseded or already run)" % tid
            when, s = pending[tid]
            if last_now is None or when > last_now:
                return "task of ToDo %d executed at %s, before its due time %d" % (tid, last_now, when)
            m = min(pending.items(), key=lambda kv: (kv[1][0], kv[1][1]))
            if m[0] != tid:
                return "task of ToDo %d (due %d) executed before ToDo %d (due %d, scheduled earlier)" % (tid, when, m[0], m[1][0])
            del pending[tid]
            step_handlers += 1
        elif k == 2 and driver and len(a) > 3 and a[3] == c.meta.get("pipe_fd"):
            # poll of Step: never sleeps past the earliest pending ToDo
            t = a[0]
            if pending and last_now is not None:
                mw = min(w for w, _ in pending.values())
                if t < 0:
                    return "Step polls with unlimited time-out although ToDo due at %d is pending (now %d)" % (mw, last_now)
                if c.meta.get("instant") and mw > last_now and last_now + t * MS > mw:
                    return "Step polls %d ms at %d: sleeps past the ToDo due at %d" % (t, last_now, mw)
                if mw <= last_now and t > 0 and False:
                    return "Step polls although a ToDo is due"
        elif k == 20:
            opc, ok = a[0], (1 if a[1] == 1 else 0)
            if opc == 40 and ok:
                driver = True
            elif opc == 44:
                driver = False
                pending.clear()
            elif opc == 50 and ok:
                tid, kind, val = a[2], a[3], a[4]
                if kind == 1:
                    pending[tid] = (val, seq); seq += 1
                elif kind == 2:
                    pending[tid] = (last_now + val * MS, seq); seq += 1
            elif opc == 51 and ok and driver:
                tid, kind, val = a[2], a[3], a[4]
                pending[tid] = (val if kind == 1 else last_now + val * MS, seq); seq += 1
            elif opc == 52 and ok and driver:
                pending.pop(a[2], None)
            if opc in (41, 42):
                # promptness: a Step entered with the front due runs it (if nothing threw)
                if ok and step_pending_at_start and step_first_now is not None and opc == 41:
                    mid, (mw, _) = min(step_pending_at_start.items(), key=lambda kv: (kv[1][0], kv[1][1]))
                    if mw <= step_first_now and step_handlers == 0:
                        return "Step returned without running ToDo %d that was due (%d <= %d) on entry" % (mid, mw, step_first_now)
                in_step = False
        # a step begins right after the previous top-level result: detect via state reports (code 25 closes an op)
        if k == 25 or (k == 20 and a[0] == 40):
            # next op starts
            in_step = True
            step_first_now = None
            step_handlers = 0
            step_pending_at_start = dict(pending)
    # todo list report must agree with pending (internal-state cross check is done by the correspondence, not here)
    return None


def monitor_step_timeouts(c, tr):
    """C07: Step(T) — bounded by T from above, full wait when nothing happens, never past a ToDo (see monitor_todos)"""
    if c.meta.get("kind") not in ("todo", "async"):
        return None
    r = monitor_todos(c, tr) if c.meta.get("kind") == "todo" else None
    if r:
        return r
    top = ops_of(c)
    # split by top-level results
    seg, oi = [], 0
    instant = c.meta.get("instant", False)
    for k, a in tr:
        if k == 20 and a[0] in (41,):
            polls = [x for kk, x in seg if kk == 2 and len(x) > 3 and x[3] == c.meta.get("pipe_fd")]
            handlers = [x for kk, x in seg if kk == 21]
            # which T? the i-th step op
            steps = [o for o in top if o[0] in (41,)]
            if oi < len(steps):
                T = steps[oi][1][0]
                oi += 1
                if abs(T) < 2 ** 31:
                    honest = all(p[2] <= p[0] * MS for p in polls if p[0] >= 0)
                    elapsed = sum(p[2] for p in polls)
                    if T >= 0 and any(p[0] < 0 for p in polls):
                        return "Step(%d) polled with an unlimited time-out" % T
                    if T >= 0 and any(p[0] > T for p in polls):
                        return "Step(%d) polled with a larger time-out %s" % (T, [p[0] for p in polls])
                    if T == 0 and any(p[0] != 0 for p in polls):
                        return "Step(0) polled with %s" % [p[0] for p in polls]
                    if T > 0 and instant and honest and elapsed > T * MS:
                        return "Step(%d) blocked %d ns" % (T, elapsed)
            seg = []
        elif k == 25:
            seg = []
        else:
            seg.append((k, a))
    return None


def monitor_async(c, tr):
    """C02 / C03 / C09(async) / C15 / C17 clauses that are visible in a sequential history"""
    cr = crashed(tr)
    if cr:
        return cr
    for k, a in tr:
        if k == 90:
            return "content / queue check failed at the libc boundary or in a handler: %s" % a
    socks = {}        # key -> state
    fd2key = {}
    futs = {}
    accept_peers = [a[1] for k, a in c.evs if k == 7]
    n_accept = 0
    expect = None     # (key, what) the next handler event must be
    in_step = False
    driver_alive = False

    def S(key):
        return socks.setdefault(key, {"q": [], "disc": 0, "alive": True, "async": False, "fd": None, "kind": 0, "peer": None})

    def kill(key):
        s = socks.get(key)
        if s:
            s["alive"] = False
            for f, size in s["q"]:
                futs[f]["must_break"] = True
            s["q"] = []

    for idx, (k, a) in enumerate(tr):
        if k == 20:
            opc, ok = a[0], (1 if a[1] == 1 else 0)
            if expect and opc in (41, 42) and ok:
                return "after %s the handler of socket %d was not invoked" % (expect[1], expect[0])
            expect = None
            if opc in (20, 21, 22) and ok:
                fd, key = a[2], a[3]
                kill(key)
                socks[key] = {"q": [], "disc": 0, "alive": True, "async": False, "fd": fd, "kind": opc - 19,
                              "peer": 100 + key if opc == 20 else None}
                fd2key[fd] = key
            elif opc == 27 and ok and a[2] == 1:
                fd, key = a[4], a[5]
                kill(key)
                socks[key] = {"q": [], "disc": 0, "alive": True, "async": False, "fd": fd, "kind": 1, "peer": a[3]}
                fd2key[fd] = key
            if opc == 40:
                driver_alive = bool(ok)
            elif opc == 44 and ok:
                driver_alive = False
            if opc == 60 and ok:
                S(a[2])["async"] = True
                S(a[2])["disc"] = 0
            elif opc == 63 and ok and len(a) > 4:
                key, fd = a[3], a[4]
                kill(key)
                socks[key] = {"q": [], "disc": 0, "alive": True, "async": True, "fd": fd, "kind": 1,
                              "peer": accept_peers[n_accept - 1] if 0 < n_accept <= len(accept_peers) else None}
                fd2key[fd] = key
            elif opc == 28 and ok:
                kill(a[2])
            elif opc in (61, 62) and ok:
                f, key, size, dst = a[2], a[3], a[4], a[5]
                futs[f] = {"sock": key, "size": size, "state": 0, "acc": 0, "udp": opc == 62, "dst": dst}
                S(key)["q"].append((f, size))
        elif k == 22:
            f, st = a[0], a[1]
            if f not in futs:
                return "unknown future %d reported" % f
            fu = futs[f]
            if fu["state"] != 0:
                return "future %d became ready twice" % f
            fu["state"] = st
            if st == 1:
                if not fu.get("done"):
                    return "future %d has a value although only %d of %d bytes were accepted by the OS" % (f, fu["acc"], fu["size"])
                for g, gu in futs.items():
                    if g < f and gu["sock"] == fu["sock"] and gu["state"] == 0 and not gu.get("must_break"):
                        return "future %d ready before the earlier future %d of the same socket" % (f, g)
            elif st == 3:
                if not fu.get("must_break"):
                    return "future %d reports a broken promise although its socket was not destroyed" % f
            elif st == 2:
                if not fu.get("failed"):
                    return "future %d carries an exception although no send of its buffer failed" % f
        elif k == 8 and a[0] == 11:
            fd2key.pop(a[1], None)
        elif k == 24 and len(a) >= 2 and driver_alive:
            # the driver's poll list after an operation: every asynchronous socket that is alive and was not disconnected is on it
            listed = set(a[0::2])
            for key, st in socks.items():
                if st.get("alive") and st.get("async") and not st.get("disc") and st.get("fd") is not None and st["fd"] not in listed:
                    return ("socket %d (descriptor %d) is alive and asynchronous, but the driver no longer polls it: nothing that arrives for it "
                            "will ever reach its handler" % (key, st["fd"]))
        elif k in (3, 5):
            fd = a[0]
            if k == 3 and a[2] != 16384:
                return "send() on fd %d without MSG_NOSIGNAL (flags %d)" % (fd, a[2])
            key = fd2key.get(fd)
            s = socks.get(key)
            if s and s.get("async"):
                if not s["q"]:
                    return "send on socket %d with an empty queue" % key
                f, size = s["q"][0]
                fu = futs[f]
                ln, r = a[1], a[3]
                if k == 3:
                    if ln != size - fu["acc"]:
                        return "send() offered %d bytes of buffer %d, %d are unsent" % (ln, f, size - fu["acc"])
                    if r < 0:
                        fu["failed"] = True; s["q"].pop(0)
                    elif r > 0 or ln == 0:
                        fu["acc"] += r
                        if fu["acc"] == size:
                            fu["done"] = True; s["q"].pop(0)
                else:
                    if ln != size or a[2] != fu["dst"]:
                        return "sendto(len %d, dst %d) for datagram %d (size %d, dst %d)" % (ln, a[2], f, size, fu["dst"])
                    if r < 0:
                        fu["failed"] = True; s["q"].pop(0)
                    elif r == ln:
                        fu["done"] = True; s["q"].pop(0)
        elif k == 4:
            fd, size, r = a
            key = fd2key.get(fd)
            s = socks.get(key)
            if s and s.get("async"):
                expect = (key, "recv() = %d" % r, 1 if r > 0 else 2, r)
        elif k == 7:
            n_accept += 1
        elif k == 21:
            kind = a[0]
            if kind in (1, 2, 4):
                key = a[1]
                s = S(key)
                if s.get("disc") and kind in (1, 2):
                    return "handler (kind %d) of socket %d ran after its disconnect handler" % (kind, key)
                if expect and expect[0] == key:
                    if kind != expect[2]:
                        return "after %s socket %d got handler kind %d" % (expect[1], key, kind)
                    if kind == 1 and a[3] != expect[3]:
                        return "receive handler of socket %d got %d bytes, recv() delivered %d" % (key, a[3], expect[3])
                    expect = None
                elif kind == 1:
                    return "receive handler of socket %d without a recv()" % key
                if kind == 2:
                    s["disc"] = 1
                    if s.get("peer") is not None and a[2] != s["peer"]:
                        return "disconnect handler of socket %d got peer %d, socket was created for %d" % (key, a[2], s["peer"])
                if kind == 1 and a[3] <= 0:
                    return "receive handler got an empty buffer"
            elif kind == 3:
                if 0 < n_accept <= len(accept_peers) and a[2] != accept_peers[n_accept - 1]:
                    return "connect handler got peer %d, accept() reported %d" % (a[2], accept_peers[n_accept - 1])
        # remember descriptors
        if k == 20 and a[1] == 1:
            opc = a[0]
            if opc in (20, 21, 22) and len(a) > 2:
                pass
    # at the end: no future of a destroyed socket is still pending
    for f, fu in futs.items():
        if fu.get("must_break") and fu["state"] == 0:
            return "future %d of a destroyed socket is still pending (dangling promise)" % f
    return None


def attach_fds(c, tr):
    """map descriptor -> socket key from the results of the creating operations (top-level order)"""
    m = {}
    top = ops_of(c)
    ti = 0
    return m


def generate_step_timeouts(rnd, tier):
    """C07, Driver::Step: ToDo constellations (incl. one due >= 2^31 ms ahead) x Step(T) under the virtual clock"""
    k = {"quick": 150, "thorough": 1500, "search": 450}[tier]
    cases = []
    for i in range(k):
        c = gen_todo_case(rnd, i)
        if rnd.random() < 0.3:
            # a ToDo far in the future: the time-out handed to poll must be clamped, never wrap to "unlimited"
            far = rnd.choice([2147483648, 3000000000, 2147483647, 2147483649]) * MS
            c.ops.insert(next(j for j, (o, a) in enumerate(c.ops) if o == 40) + 1, (50, [900 + i % 50, 1, far, 0]))
        c.meta["profile"] = {"timeout": 0.7, "pipe": 0.1, "eintr": 0.05}
        c.id = "steptm%d" % i
        cases.append(c)
    return grow(cases, chooser, rnd)


def generate_step_eintr(rnd, tier):
    """C16, Driver::Step/Run: polls of the driver interrupted by signals"""
    k = {"quick": 150, "thorough": 1500, "search": 450}[tier]
    cases = []
    for i in range(k):
        c = gen_todo_case(rnd, i) if i % 2 else gen_async_case(rnd, i)
        c.meta["profile"] = dict(c.meta.get("profile", {}), eintr=0.35)
        c.id = "stepintr%d" % i
        cases.append(c)
    return grow(cases, chooser, rnd)
