"""shared pieces of the checks that run on Driver / async-socket scenarios (C02, C03, C08 sequential part, C15, C17)"""
from common import *
import drivercases as dc


def project_async(tr):
    out = []
    for c, a in tr:
        if c in (3, 4, 5, 6, 7):
            out.append((c, a))
        elif c in (21, 22, 23, 24):
            out.append((c, a))
        elif c == 20:
            out.append((c, a[:3] if a[1] == 0 else a))
        elif c == 8 and a[0] == 11:
            out.append((c, a))
        elif c in (90, 98):
            out.append((c, a))
        elif c == 99:
            out.append((c, a[:2]))
    return out


def distribution(cases):
    d = {"cases": len(cases), "ops": {}, "events": {}, "flavours": {}, "blocked_or_truncated": 0}
    names = {40: "driver_new", 41: "step", 42: "run", 43: "stop", 44: "driver_destroy", 50: "todo_new", 51: "shift", 52: "cancel",
             53: "drop_handle", 95: "throw", 1: "block_begin", 2: "block_end", 10: "pool_new", 12: "release", 14: "release_all", 20: "tcp_new",
             21: "udp_new", 22: "acceptor_new", 28: "destroy", 30: "buffered_new", 32: "buf_recv", 33: "buf_recvfrom", 60: "async_new",
             61: "async_send", 62: "async_sendto", 63: "adopt", 64: "hold"}
    evn = {1: "now", 2: "poll", 3: "send", 4: "recv", 5: "sendto", 6: "recvfrom", 7: "accept"}
    for c in cases:
        for o, a in c.ops:
            n = names.get(o, str(o))
            d["ops"][n] = d["ops"].get(n, 0) + 1
        for e, a in c.evs:
            n = evn.get(e, str(e))
            d["events"][n] = d["events"].get(n, 0) + 1
            if e in (3, 4, 5, 6) and a[0] < 0 or e == 7 and a[0] != 0 or e == 2 and a[0] < 0:
                d["events"]["errors"] = d["events"].get("errors", 0) + 1
            if e == 3 and a[0] >= 0:
                d["events"]["send_ok"] = d["events"].get("send_ok", 0) + 1
        fl = c.meta.get("flavour", c.meta.get("kind"))
        d["flavours"][fl] = d["flavours"].get(fl, 0) + 1
        d["blocked_or_truncated"] += 1 if c.meta.get("blocked") else 0
    return d


def monitor_run_stop(c, tr):
    """C08, sequential part: a Stop() that was issued (before or during Run) makes Run return"""
    stop_pending = False
    in_run = False
    for k, a in tr:
        if k == 20 and a[0] == 43 and a[1] == 1:
            stop_pending = True
        elif k == 20 and a[0] == 42:
            stop_pending = False
            in_run = False
        elif k == 20 and a[0] == 44:
            stop_pending = False
    # trace ended inside Run although a Stop was pending: detect by comparing with the operation list
    top = dc.ops_of(c)
    rets = [a for k, a in tr if k == 20]
    # count top-level results: find whether the case ended (99 1 ...) while a RUN op was the running one
    end = tr[-1] if tr else None
    if end and end[0] == 99 and end[1][0] == 1 and 1 <= end[1][1] <= 7:
        # which top-level op was running? replay state reports (code 25/24 close an op when a driver exists; fall back to counting)
        done = sum(1 for k, a in tr if k == 20 and a[0] in (o for o, _ in top))
        # conservative: look at the last Stop result and whether a Run result follows it
        last_stop = max([i for i, (k, a) in enumerate(tr) if k == 20 and a[0] == 43 and a[1] == 1] or [-1])
        run_after = any(k == 20 and a[0] == 42 for k, a in tr[last_stop + 1:]) if last_stop >= 0 else True
        # was a RUN op started after that Stop? it is if the ops after the Stop's position contain 42 and steps were polled
        if last_stop >= 0 and not run_after:
            polls_after = [a for k, a in tr[last_stop + 1:] if k == 2 and len(a) > 3 and a[3] == c.meta.get("pipe_fd")]
            nxt = None
            # the top-level op following the Stop
            seen = 0
            for o, oa in top:
                pass
            if len(polls_after) >= 2:
                return "Run() kept stepping (%d more polls) after a Stop() had been issued" % len(polls_after)
    return None
