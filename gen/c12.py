import addrcheck


def main(tier, seed, replay=None):
    return addrcheck.run_c12(tier, seed)
