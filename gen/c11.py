import addrcheck


def main(tier, seed, replay=None):
    return addrcheck.run_c11(tier, seed)
