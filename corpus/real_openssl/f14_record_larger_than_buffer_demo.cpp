// F14: an asynchronous TLS socket whose receive buffers are smaller than a TLS record. The peer sends <size> bytes in ONE Send
// (one record up to 16 kB) and then waits for the echo of the LAST byte count. Expected by C03 (which C18 extends to TLS): the
// receive handler gets every byte the peer sent — without the peer having to send anything more.  f14 <size> <bufsize>
#include "sockpuppet/socket_async.h"
#include <atomic>
#include <chrono>
#include <cstdio>
#include <cstdlib>
#include <future>
#include <thread>
#include <unistd.h>
using namespace sockpuppet;
using namespace std::chrono_literals;

int main(int argc, char **argv)
{
  size_t size = (argc > 1) ? std::strtoull(argv[1], nullptr, 10) : 5000U;
  size_t bufsize = (argc > 2) ? std::strtoull(argv[2], nullptr, 10) : 512U;
  Acceptor acceptor(Address("localhost:0"), "cert.pem", "key.pem");
  auto serverAddr = acceptor.LocalAddress();
  std::atomic<size_t> got{0};
  std::atomic<bool> content_ok{true};
  Driver driver;
  std::thread driverThread([&]() { driver.Run(); });
  std::unique_ptr<SocketTcpAsync> serverSock;
  std::thread server([&]() {
    try {
      auto conn = acceptor.Listen(Duration(-1));
      serverSock = std::make_unique<SocketTcpAsync>(SocketTcpBuffered(std::move(conn->first), 4U, bufsize), driver,
          [&](BufferPtr b) {
            for(size_t i = 0; i < b->size(); ++i)
              if((*b)[i] != static_cast<char>('a' + (got + i) % 23)) content_ok = false;
            got += b->size();
          },
          [&](Address, char const *why) { std::fprintf(stderr, "server disconnect: %s\n", why); });
    } catch(std::exception const &e) { std::fprintf(stderr, "server: %s\n", e.what()); }
  });
  std::this_thread::sleep_for(300ms);   // the acceptor listens only once Listen() runs
  size_t sent = 0;
  size_t after_wait = 0;
  try {
    SocketTcp client(serverAddr, "cert.pem", "key.pem");
    std::string data(size, '\0');
    for(size_t i = 0; i < size; ++i) data[i] = static_cast<char>('a' + i % 23);
    sent = client.Send(data.data(), data.size(), Duration(-1));
    server.join();
    std::this_thread::sleep_for(2s);     // the peer is silent now: everything it sent must have reached the handler
    after_wait = got;
  } catch(std::exception const &e) { std::fprintf(stderr, "client: %s\n", e.what()); }
  bool ok = sent == size && after_wait == size && content_ok;
  std::printf("%s: the peer sent %zu bytes in one record, receive buffers of %zu bytes: the handler got %zu bytes within 2 s of silence\n",
              ok ? "PASS" : "FAIL", sent, bufsize, after_wait);
  std::fflush(stdout);
  _exit(ok ? 0 : 1);
}
