// F10: a TLS Send with unlimited time-out of more than nine TLS records (9 * 16384 bytes). Server (synchronous) accepts and
// reads everything; client sends <size> bytes with Duration(-1).
// Expected by C01 (which C18 extends to TLS): "a Send with unlimited timeout returns only after all its bytes were accepted".
// f10 <size> [<timeout_ms>]   (timeout -1 = unlimited, the default)
#include "sockpuppet/socket.h"
#include <atomic>
#include <chrono>
#include <cstdio>
#include <cstdlib>
#include <string>
#include <thread>
#include <unistd.h>
using namespace sockpuppet;
using namespace std::chrono_literals;

int main(int argc, char **argv)
{
  size_t size = (argc > 1) ? std::strtoull(argv[1], nullptr, 10) : 1000000U;
  long timeout = (argc > 2) ? std::atol(argv[2]) : -1;
  Acceptor acceptor(Address("localhost:0"), "cert.pem", "key.pem");
  auto serverAddr = acceptor.LocalAddress();
  std::atomic<size_t> got{0};
  std::atomic<bool> content_ok{true};
  std::thread server([&]() {
    try {
      auto conn = acceptor.Listen(Duration(-1));
      std::string buf(65536, '\0');
      for(;;) {
        auto n = conn->first.Receive(buf.data(), buf.size(), Duration(2000));
        if(!n) break;
        for(size_t i = 0; i < *n; ++i)
          if(buf[i] != static_cast<char>('a' + (got + i) % 23)) content_ok = false;
        got += *n;
      }
    } catch(std::exception const &e) { std::fprintf(stderr, "server: %s\n", e.what()); }
  });
  std::this_thread::sleep_for(300ms);   // the acceptor listens only once Listen() runs
  size_t sent = 0;
  try {
    SocketTcp client(serverAddr, "cert.pem", "key.pem");
    std::string data(size, '\0');
    for(size_t i = 0; i < size; ++i) data[i] = static_cast<char>('a' + i % 23);
    sent = client.Send(data.data(), data.size(), Duration(timeout));
    std::this_thread::sleep_for(300ms);
  } catch(std::exception const &e) { std::fprintf(stderr, "client: %s\n", e.what()); }
  server.join();
  bool ok = (timeout >= 0 || sent == size) && got == sent && content_ok;
  std::printf("%s: Send(%zu bytes, timeout %ld) returned %zu, the peer received %zu\n", ok ? "PASS" : "FAIL", size, timeout, sent, got.load());
  std::fflush(stdout);
  _exit(ok ? 0 : 1);
}
