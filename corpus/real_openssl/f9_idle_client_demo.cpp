// F9: an asynchronous TLS client that only listens. Server (synchronous) accepts and sends "hello" with unlimited time-out.
// Expected by C18: the handshake completes whatever the order of the two sides' calls; the client's handler gets "hello".
#include "sockpuppet/socket_async.h"
#include <atomic>
#include <chrono>
#include <cstdio>
#include <future>
#include <thread>
#include <unistd.h>
using namespace sockpuppet;
using namespace std::chrono_literals;

int main()
{
  Acceptor acceptor(Address("localhost:0"), "cert.pem", "key.pem");
  auto serverAddr = acceptor.LocalAddress();
  std::promise<void> got;
  std::string received;
  Driver driver;
  std::thread driverThread([&]() { driver.Run(); });
  std::thread server([&]() {
    try {
      auto conn = acceptor.Listen(Duration(-1));
      static char const hello[] = "hello";
      auto n = conn->first.Send(hello, 5U, Duration(3000));
      std::fprintf(stderr, "server sent %zu\n", n);
      std::this_thread::sleep_for(500ms);
    } catch(std::exception const &e) { std::fprintf(stderr, "server: %s\n", e.what()); }
  });
  std::this_thread::sleep_for(300ms);
  SocketTcpAsync client(SocketTcpBuffered(SocketTcp(serverAddr, "cert.pem", "key.pem"), 1U, 2048U), driver,
      [&](BufferPtr b) { received = *b; got.set_value(); },
      [&](Address, char const *why) { std::fprintf(stderr, "client disconnect: %s\n", why); });
  bool ok = got.get_future().wait_for(5s) == std::future_status::ready;
  std::printf("%s: client received \"%s\"\n", ok ? "PASS" : "FAIL (handshake never started)", received.c_str());
  std::fflush(stdout);
  _exit(ok ? 0 : 1);
}
