// F15 (probe written by a round-6 sub-agent against the unchanged tree, adapted): TLS Send(T > 0) of much data to a peer that stops
// reading after the handshake. Expected by C07: a Send that returns fewer bytes than asked does so no earlier than T (to the
// millisecond). The unchanged glue stored the remaining budget back truncated to whole milliseconds after every record, so each
// record cost a millisecond that had not passed.   f15 <T ms> [<bytes>] [p = plain TCP for comparison]
#include "sockpuppet/socket.h"
#include <chrono>
#include <cstdio>
#include <thread>
#include <cstdlib>
#include <vector>
#include <atomic>
using namespace sockpuppet;
using Clk = std::chrono::steady_clock;
static double ms(Clk::duration d){ return std::chrono::duration<double,std::milli>(d).count(); }
int main(int argc, char **argv)
{
  int T = argc > 1 ? atoi(argv[1]) : 200;
  size_t N = argc > 2 ? atol(argv[2]) : (64u << 20);
  bool tls = !(argc > 3 && argv[3][0] == 'p');
  const char *cert = "cert.pem", *key = "key.pem";
  Acceptor acc = tls ? Acceptor(Address("localhost:0"), cert, key) : Acceptor(Address("localhost:0"));
  Address addr = acc.LocalAddress();
  std::atomic<bool> done{false};
  std::thread cl([&]{
    SocketTcp c = tls ? SocketTcp(addr, cert, key) : SocketTcp(addr);
    char b[16];
    c.Send("hello", 5); // handshake + one record
    (void)c.Receive(b, sizeof b, Duration(1000)); // get "ready"
    while(!done) std::this_thread::sleep_for(std::chrono::milliseconds(10));
  });
  auto [s, from] = *acc.Listen(Duration(2000));
  char b[16];
  (void)s.Receive(b, sizeof b);
  s.Send("ready", 5);
  std::vector<char> data(N, 'x');
  auto t0 = Clk::now();
  auto sent = s.Send(data.data(), data.size(), Duration(T));
  auto el = ms(Clk::now()-t0);
  std::printf("%s server: Send(%zu bytes, T=%d) -> %zu after %.3f ms  (%s)\n", tls?"TLS":"TCP", N, T, sent, el,
     sent < N ? (el < T ? "SHORT AND EARLY" : (el > T + 20 ? "LATE" : "ok")) : "all sent");
  bool ok = !(sent < N && el < T - 1.0);
  std::printf("%s\n", ok ? "PASS" : "FAIL (returned short before its time-out)");
  std::fflush(stdout);
  done = true;
  cl.join();
  return ok ? 0 : 1;
}
