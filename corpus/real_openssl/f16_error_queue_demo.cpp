// F16 (written by a round-6 sub-agent as a probe of the unchanged tree, adapted): destroying a TLS socket whose handshake never
// started leaves an entry ("shutdown while in init") in the thread's OpenSSL error queue; the next would-block SSL_read of ANOTHER,
// healthy connection B is then reported as a fatal SSL error: B's disconnect handler runs with A's error text, B's data is lost.
// Expected by C18/C03: B receives "onetwo-two-two", no disconnect.   f16 [keep]  (any argument: control run, A is kept)
#include "sockpuppet/socket_async.h"
#include <openssl/ssl.h>
#include <openssl/bio.h>
#include <sys/socket.h>
#include <netinet/in.h>
#include <netinet/tcp.h>
#include <unistd.h>
#include <chrono>
#include <cstdio>
#include <map>
#include <memory>
#include <string>
#include <thread>
using namespace sockpuppet;
using namespace std::chrono_literals;
static int dial(uint16_t port) {
  int fd = ::socket(AF_INET, SOCK_STREAM, 0);
  sockaddr_in sa{}; sa.sin_family = AF_INET; sa.sin_port = htons(port); sa.sin_addr.s_addr = htonl(INADDR_LOOPBACK);
  ::connect(fd, (sockaddr*)&sa, sizeof(sa));
  int one = 1; ::setsockopt(fd, IPPROTO_TCP, TCP_NODELAY, &one, sizeof(one));
  return fd;
}
int main(int argc, char **)
{
  bool drop = (argc < 2); // any argument: control run, connection A is kept

  Driver driver;
  std::map<uint16_t, std::unique_ptr<SocketTcpAsync>> conns;
  std::string received; int disconnects = 0;
  AcceptorAsync acceptor(Acceptor(Address("127.0.0.1:0"), "cert.pem", "key.pem"), driver,
    [&](SocketTcp s, Address a) {
      printf("connect from %s\n", to_string(a).c_str());
      uint16_t p = a.Port();
      conns[p] = std::make_unique<SocketTcpAsync>(SocketTcpBuffered(std::move(s)), driver,
        [&](BufferPtr b) { printf("receive %zu bytes\n", b->size()); received += *b; },
        [&](Address a, char const *why) { printf("disconnect %s (%s)\n", to_string(a).c_str(), why); ++disconnects; });
    });
  uint16_t port = acceptor.LocalAddress().Port();

  // peer B: proper TLS client driven through a memory BIO pair so that we control segmentation
  int fdB = dial(port);
  SSL_CTX *ctx = SSL_CTX_new(TLS_client_method());
  SSL *ssl = SSL_new(ctx);
  BIO *in = BIO_new(BIO_s_mem()), *out = BIO_new(BIO_s_mem());
  SSL_set_bio(ssl, in, out); SSL_set_connect_state(ssl);
  auto flush = [&](size_t firstPart = 0) { // send what the engine produced; optionally only the first bytes now
    char buf[20000]; int n = BIO_read(out, buf, sizeof(buf)); if(n <= 0) return std::string();
    size_t now = firstPart && firstPart < (size_t)n ? firstPart : n;
    ::send(fdB, buf, now, 0);
    return std::string(buf + now, n - now);
  };
  auto pump = [&] { for(int i = 0; i < 5; ++i) driver.Step(20ms); };
  while(!SSL_is_init_finished(ssl)) {
    SSL_do_handshake(ssl); flush(); pump();
    char buf[20000]; ssize_t n = ::recv(fdB, buf, sizeof(buf), MSG_DONTWAIT); if(n > 0) BIO_write(in, buf, n);
  }
  SSL_write(ssl, "one", 3); flush(); pump();
  printf("B established, received so far '%s'\n", received.c_str());

  // peer A: connects but never speaks; the application gives up on it and destroys the socket
  int fdA = dial(port);
  pump();
  uint16_t portA = 0; { sockaddr_in sa{}; socklen_t l = sizeof(sa); getsockname(fdA, (sockaddr*)&sa, &l); portA = ntohs(sa.sin_port); }
  printf("application drops silent connection A (takes ~1 s TLS shutdown timeout)\n");
  auto t0 = std::chrono::steady_clock::now();
  if(drop) conns.erase(portA); else printf("(control run: A is kept)\n");
  printf("destroying A took %.2f s (no Step possible meanwhile when this runs on the Driver's thread)\n",
         std::chrono::duration<double>(std::chrono::steady_clock::now() - t0).count());

  // peer B sends one record in two TCP segments
  SSL_write(ssl, "two-two-two", 11);
  auto rest = flush(10); pump();
  ::send(fdB, rest.data(), rest.size(), 0); pump();
  bool ok = (received == "onetwo-two-two") && (disconnects == 0);
  printf("%s: B received '%s' (expected 'onetwo-two-two'), disconnects %d (expected 0)\n", ok ? "PASS" : "FAIL", received.c_str(), disconnects);
  fflush(stdout);
  ::close(fdA); ::close(fdB);
  _exit(ok ? 0 : 1);
}
