// F12: an asynchronous TLS socket sends ONE buffer that is larger than a TLS record (16 kB) to a peer that reads slowly, so the
// kernel's send buffer fills up in the middle of the buffer. Expected by C02/C17/C18: the bytes arrive complete and in order,
// the futures become ready, no crash. f12 <size> [<count>]   (count buffers of size bytes each, queued at once)
#include "sockpuppet/socket_async.h"
#include <atomic>
#include <chrono>
#include <cstdio>
#include <cstdlib>
#include <future>
#include <thread>
#include <vector>
#include <unistd.h>
using namespace sockpuppet;
using namespace std::chrono_literals;

int main(int argc, char **argv)
{
  size_t size = (argc > 1) ? std::strtoull(argv[1], nullptr, 10) : 4000000U;
  size_t count = (argc > 2) ? std::strtoull(argv[2], nullptr, 10) : 1U;
  size_t total = size * count;
  Acceptor acceptor(Address("localhost:0"), "cert.pem", "key.pem");
  auto serverAddr = acceptor.LocalAddress();
  std::atomic<size_t> got{0};
  std::atomic<bool> content_ok{true};
  std::thread server([&]() {
    try {
      auto conn = acceptor.Listen(Duration(-1));
      std::string buf(4096, '\0');
      for(;;) {
        auto n = conn->first.Receive(buf.data(), buf.size(), Duration(2000));
        if(!n) break;
        for(size_t i = 0; i < *n; ++i)
          if(buf[i] != static_cast<char>('a' + (got + i) % 23)) content_ok = false;
        got += *n;
        if(got % (64 * 4096) == 0) std::this_thread::sleep_for(2ms);   // a slow reader
        if(got >= total) break;
      }
    } catch(std::exception const &e) { std::fprintf(stderr, "server: %s\n", e.what()); }
  });
  std::this_thread::sleep_for(300ms);   // the acceptor listens only once Listen() runs
  Driver driver;
  std::thread driverThread([&]() { driver.Run(); });
  BufferPool pool(count, size);
  bool ready = false;
  {
    SocketTcpAsync client(SocketTcpBuffered(SocketTcp(serverAddr, "cert.pem", "key.pem"), 1U, 2048U), driver,
        [&](BufferPtr) {}, [&](Address, char const *why) { std::fprintf(stderr, "client disconnect: %s\n", why); });
    std::vector<std::future<void>> futs;
    for(size_t n = 0; n < count; ++n) {
      auto b = pool.Get();
      b->resize(size);
      for(size_t i = 0; i < size; ++i) (*b)[i] = static_cast<char>('a' + (n * size + i) % 23);
      futs.push_back(client.Send(std::move(b)));
    }
    ready = true;
    for(auto &fut : futs) {
      if(fut.wait_for(20s) != std::future_status::ready) { ready = false; break; }
      try { fut.get(); } catch(std::exception const &e) { std::fprintf(stderr, "future: %s\n", e.what()); ready = false; }
    }
    server.join();
  }
  driver.Stop();
  driverThread.join();
  bool ok = ready && got == total && content_ok;
  std::printf("%s: async Send of %zu buffer(s) of %zu bytes: futures %s, the peer received %zu bytes, content %s\n", ok ? "PASS" : "FAIL", count, size,
              ready ? "ready" : "NOT ready", got.load(), content_ok ? "intact" : "CORRUPT");
  std::fflush(stdout);
  _exit(ok ? 0 : 1);
}
