// Demo for change (a): a TLS handshake on a Driver-managed (async) socket must
// complete even if the socket is momentarily not writable at the point where the
// handshake wants to send its flight while being processed from the *readable* path.
//
// Setup: async TLS server (AcceptorAsync + SocketTcpAsync, nothing queued for send)
//        sync TLS client that does Send("hello", timeout 0) every 50 ms until it is accepted
//        (non-blocking client; this also keeps the demo clear of an unrelated race in
//        the unchanged library when handshake-end and payload arrive back-to-back)
// Fault: poll() is interposed; the first two zero-timeout single-fd POLLOUT polls issued
//        on the Driver thread (these are only issued by the TLS BIO write / TLS
//        wait-writable of the server side socket while it is handled by the Driver)
//        report "not writable", as if the TCP send buffer was momentarily full.
// Expected (property C18): handshake completes anyway, server receives "hello".
//
// build: g++ -std=c++17 -DSOCKPUPPET_WITH_TLS -I/tmp/seed/C18/include -I/tmp/seed/C18/src \
//          demo.cpp /tmp/seed/C18/build-tls/libsockpuppet.a -lssl -lcrypto -lpthread -o demo
// run:   (cd /tmp/seed/C18/out/a && timeout 60 ./demo)     # needs cert.pem / key.pem in cwd

#include "sockpuppet/socket_async.h"

#include <poll.h>
#include <sys/syscall.h>
#include <unistd.h>

#include <atomic>
#include <chrono>
#include <cstdio>
#include <cstdlib>
#include <future>
#include <memory>
#include <mutex>
#include <string>
#include <thread>

using namespace sockpuppet;
using namespace std::chrono_literals;

static std::atomic<int> g_blockWritable{0}; // number of polls to still report "not writable"
static std::atomic<int> g_blocked{0};
static std::atomic<int> g_skip{0}; // number of polls that were reported "not writable"
static thread_local bool t_isDriverThread = false;

extern "C" int poll(struct pollfd *fds, nfds_t nfds, int timeout)
{
  if(t_isDriverThread && nfds == 1 && timeout == 0 && fds[0].events == POLLOUT) {
    int left = g_blockWritable.load();
    if(left > 0 && g_skip.load() > 0) { --g_skip; left = 0; }
    while(left > 0) {
      if(g_blockWritable.compare_exchange_weak(left, left - 1)) {
        ++g_blocked;
        fds[0].revents = 0;
        return 0; // send buffer "full" right now
      }
    }
  }
  struct timespec ts;
  struct timespec *pts = nullptr;
  if(timeout >= 0) {
    ts.tv_sec = timeout / 1000;
    ts.tv_nsec = (timeout % 1000) * 1000000L;
    pts = &ts;
  }
  return static_cast<int>(syscall(SYS_ppoll, fds, nfds, pts, nullptr, 0));
}

int main(int argc, char **argv)
{
  Driver driver;
  std::thread driverThread([&]() { t_isDriverThread = true; driver.Run(); });

  std::mutex mtx;
  std::string received;
  std::promise<void> gotHello;
  auto gotHelloFuture = gotHello.get_future();
  std::unique_ptr<SocketTcpAsync> handler;

  auto onReceive = [&](BufferPtr buf) {
    std::lock_guard<std::mutex> lock(mtx);
    received += *buf;
    if(received.size() >= 5U) {
      try { gotHello.set_value(); } catch(...) {}
    }
  };
  auto onDisconnect = [&](Address, char const *) {};
  auto onConnect = [&](SocketTcp sock, Address) {
    std::lock_guard<std::mutex> lock(mtx);
    handler = std::make_unique<SocketTcpAsync>(
        SocketTcpBuffered(std::move(sock), 1U, 2048U), driver, onReceive, onDisconnect);
  };

  AcceptorAsync acceptor(Acceptor(Address("localhost:0"), "cert.pem", "key.pem"), driver, onConnect);
  auto serverAddr = acceptor.LocalAddress();

  // from now on, the next two "is it writable right now?" checks say no
  g_skip = (argc > 1 ? atoi(argv[1]) : 0);
  g_blockWritable = (argc > 2 ? atoi(argv[2]) : 2);

  std::atomic<bool> clientSent{false};
  std::thread client([&]() {
    try {
      SocketTcp sock(serverAddr, "cert.pem", "key.pem");
      static char const hello[] = "hello";
      // non-blocking: each call advances the handshake as far as possible, finally sends
      for(int i = 0; (i < 100) && !clientSent; ++i) {
        if(sock.Send(hello, 5U, Duration(-1)) == 5U) {
          clientSent = true;
        } else {
          std::this_thread::sleep_for(50ms);
        }
      }
      std::this_thread::sleep_for(200ms);
    } catch(std::exception const &e) {
      std::fprintf(stderr, "client: %s\n", e.what());
    }
  });

  bool ok = (gotHelloFuture.wait_for(5s) == std::future_status::ready);
  {
    std::lock_guard<std::mutex> lock(mtx);
    ok = ok && (received == "hello");
  }
  if(ok) {
    client.join();
  }
  std::printf("polls reported not-writable: %d, client sent: %d, server received: \"%s\"\n",
              g_blocked.load(), int(clientSent.load()), received.c_str());

  if(!ok) {
    std::printf("FAIL: TLS handshake did not complete / payload not delivered within 5 s\n");
    std::fflush(stdout);
    _exit(1); // client thread is still retrying
  }

  handler.reset(); // (not under mtx: waits for the driver step to finish)
  driver.Stop();
  driverThread.join();
  std::printf("PASS\n");
  return 0;
}
